//! A scenario is an explicit, serialisable value: running it is a pure function of
//! the scenario and the code under test.

use crate::json::{self, J};
use crate::reflang::{Cmd, RArea, AREA_CHARS};
use simcore::Plan;

#[derive(Clone, Debug, PartialEq)]
pub struct Scenario {
    pub prop: String,
    pub seed: u64,
    pub run: u64,
    /// program as a command list (its canonical spelling is the program file)
    pub cmds: Vec<Cmd>,
    pub file_name: String,
    /// C13: explicit file bytes instead of the canonical spelling
    pub file_bytes: Option<Vec<u8>>,
    /// C13: storage fault class ("none", "missing", "directory", "no_ext", "wrong_ext", ...)
    pub file_fault: String,
    pub subcommand: String,
    pub level: u8,
    pub stdin: Vec<u8>,
    /// C11: debugger commands; C12: entered lines (verbatim, without terminator)
    pub script: Vec<String>,
    /// last script line is sent without a line terminator
    pub no_final_newline: bool,
    /// property-specific small integers (mode switches), serialised as given
    pub knobs: Vec<(String, i64)>,
    pub plan: Plan,
    /// value cap (bits) and step budget the scenario was generated for
    pub cap_bits: usize,
    pub budget: u64,
}

impl Scenario {
    pub fn new(prop: &str) -> Scenario {
        Scenario {
            prop: prop.to_string(),
            seed: 0,
            run: 0,
            cmds: Vec::new(),
            file_name: "p.hyeong".to_string(),
            file_bytes: None,
            file_fault: "none".to_string(),
            subcommand: "run".to_string(),
            level: 0,
            stdin: Vec::new(),
            script: Vec::new(),
            no_final_newline: false,
            knobs: Vec::new(),
            plan: Plan::default(),
            cap_bits: 192,
            budget: 400,
        }
    }

    pub fn knob(&self, k: &str) -> i64 {
        self.knobs.iter().find(|e| e.0 == k).map_or(0, |e| e.1)
    }
    pub fn set_knob(&mut self, k: &str, v: i64) {
        if let Some(e) = self.knobs.iter_mut().find(|e| e.0 == k) {
            e.1 = v;
        } else {
            self.knobs.push((k.to_string(), v));
        }
    }

    /// Canonical spelling of the program.  Knob `layout` = 1: one command per line with runs of
    /// blank lines in between (line numbers grow beyond column numbers); the commands are the same.
    pub fn source(&self) -> String {
        if self.knob("layout") != 1 {
            return crate::reflang::program_source(&self.cmds);
        }
        let mut s = String::new();
        for (i, c) in self.cmds.iter().enumerate() {
            if i > 0 {
                s.push('\n');
                let h = simcore::mix(self.plan.key ^ 0x1A70 ^ (i as u64) << 7);
                if h % 3 == 0 {
                    for _ in 0..(1 + (h >> 8) % 14) {
                        s.push('\n');
                    }
                }
            }
            c.source(&mut s);
        }
        s
    }

    pub fn file_content(&self) -> Vec<u8> {
        match &self.file_bytes {
            Some(b) => b.clone(),
            None => self.source().into_bytes(),
        }
    }

    /// 64-bit content hash (distinctness of cases)
    pub fn hash(&self) -> u64 {
        let mut h = 0xcbf2_9ce4_8422_2325u64;
        let mut eat = |b: &[u8]| {
            for x in b {
                h ^= *x as u64;
                h = h.wrapping_mul(0x0000_0100_0000_01B3);
            }
            h ^= 0xff;
            h = h.wrapping_mul(0x0000_0100_0000_01B3);
        };
        eat(&self.file_content());
        eat(self.file_name.as_bytes());
        eat(self.file_fault.as_bytes());
        eat(self.subcommand.as_bytes());
        eat(&[self.level]);
        eat(&self.stdin);
        for l in &self.script {
            eat(l.as_bytes());
        }
        for (k, v) in &self.knobs {
            eat(k.as_bytes());
            eat(&v.to_le_bytes());
        }
        eat(format!("{:?}", self.plan).as_bytes());
        h
    }

    pub fn to_json(&self) -> J {
        let cmds = J::Arr(
            self.cmds
                .iter()
                .map(|c| {
                    let mut a = String::new();
                    c.area.source(&mut a);
                    J::Arr(vec![J::Int(c.kind as i64), J::Int(c.h as i64), J::Int(c.d as i64), J::Str(a)])
                })
                .collect(),
        );
        let p = &self.plan;
        let plan = J::obj()
            .set("key", J::Str(p.key.to_string()))
            .set("max_chunk", J::Int(p.max_chunk as i64))
            .set("read_eintr_pct", J::Int(p.read_eintr_pct as i64))
            .set("bufcap", J::Int(p.bufcap as i64))
            .set("short_write_pct", J::Int(p.short_write_pct as i64))
            .set("write_eintr_pct", J::Int(p.write_eintr_pct as i64))
            .set("sigint_at", J::Arr(p.sigint_at.iter().map(|x| J::Int(*x as i64)).collect()))
            .set("tick_budget", J::Int(p.tick_budget as i64))
            .set("read_error_at", J::Int(p.read_error_at));
        let mut o = J::obj()
            .set("property", J::str(&self.prop))
            .set("verif_seed", J::Str(self.seed.to_string()))
            .set("run", J::Int(self.run as i64))
            .set("program_text", J::Str(self.source()))
            .set("commands", cmds)
            .set("file_name", J::str(&self.file_name))
            .set("file_fault", J::str(&self.file_fault))
            .set("subcommand", J::str(&self.subcommand))
            .set("level", J::Int(self.level as i64))
            .set("stdin_hex", J::Str(json::hex(&self.stdin)))
            .set("stdin_text", J::Str(String::from_utf8_lossy(&self.stdin).into_owned()))
            .set("script", J::Arr(self.script.iter().map(|s| J::str(s)).collect()))
            .set("no_final_newline", J::Bool(self.no_final_newline))
            .set("knobs", J::Obj(self.knobs.iter().map(|(k, v)| (k.clone(), J::Int(*v))).collect()))
            .set("cap_bits", J::Int(self.cap_bits as i64))
            .set("budget", J::Int(self.budget as i64))
            .set("fault_plan", plan);
        if let Some(b) = &self.file_bytes {
            o.put("file_bytes_hex", J::Str(json::hex(b)));
        }
        o
    }

    pub fn from_json(j: &J) -> Result<Scenario, String> {
        let mut s = Scenario::new(j.get("property").and_then(|x| x.as_str()).ok_or("property")?);
        s.seed = j.get("verif_seed").and_then(|x| x.as_u64()).unwrap_or(0);
        s.run = j.get("run").and_then(|x| x.as_u64()).unwrap_or(0);
        for c in j.get("commands").and_then(|x| x.as_arr()).ok_or("commands")? {
            let a = c.as_arr().ok_or("command")?;
            let area = parse_area(a[3].as_str().ok_or("area")?)?;
            s.cmds.push(Cmd::new(
                a[0].as_i64().ok_or("kind")? as u8,
                a[1].as_i64().ok_or("h")? as usize,
                a[2].as_i64().ok_or("d")? as usize,
                area,
            ));
        }
        let gs = |k: &str| j.get(k).and_then(|x| x.as_str()).map(|x| x.to_string());
        s.file_name = gs("file_name").unwrap_or_else(|| "p.hyeong".into());
        s.file_fault = gs("file_fault").unwrap_or_else(|| "none".into());
        s.subcommand = gs("subcommand").unwrap_or_else(|| "run".into());
        s.level = j.get("level").and_then(|x| x.as_i64()).unwrap_or(0) as u8;
        s.stdin = json::unhex(&gs("stdin_hex").unwrap_or_default());
        s.file_bytes = gs("file_bytes_hex").map(|h| json::unhex(&h));
        if let Some(a) = j.get("script").and_then(|x| x.as_arr()) {
            s.script = a.iter().filter_map(|x| x.as_str().map(|y| y.to_string())).collect();
        }
        s.no_final_newline = j.get("no_final_newline").and_then(|x| x.as_bool()).unwrap_or(false);
        if let Some(J::Obj(o)) = j.get("knobs") {
            s.knobs = o.iter().map(|(k, v)| (k.clone(), v.as_i64().unwrap_or(0))).collect();
        }
        s.cap_bits = j.get("cap_bits").and_then(|x| x.as_i64()).unwrap_or(192) as usize;
        s.budget = j.get("budget").and_then(|x| x.as_i64()).unwrap_or(400) as u64;
        if let Some(p) = j.get("fault_plan") {
            let gi = |k: &str| p.get(k).and_then(|x| x.as_i64()).unwrap_or(0);
            s.plan = Plan {
                key: p.get("key").and_then(|x| x.as_u64()).unwrap_or(0),
                max_chunk: gi("max_chunk") as usize,
                read_eintr_pct: gi("read_eintr_pct") as u8,
                bufcap: gi("bufcap").max(1) as usize,
                short_write_pct: gi("short_write_pct") as u8,
                write_eintr_pct: gi("write_eintr_pct") as u8,
                sigint_at: p
                    .get("sigint_at")
                    .and_then(|x| x.as_arr())
                    .map(|a| a.iter().filter_map(|x| x.as_i64().map(|y| y as u32)).collect())
                    .unwrap_or_default(),
                tick_budget: gi("tick_budget") as u64,
                read_error_at: p.get("read_error_at").and_then(|x| x.as_i64()).unwrap_or(-1),
            };
        }
        Ok(s)
    }
}

/// Parse the canonical area spelling back into a tree (replay files only).
pub fn parse_area(s: &str) -> Result<RArea, String> {
    let cs: Vec<char> = s.chars().collect();
    // Q := B ('?' Q)? ; B := H ('!' B)? ; H := heart | empty
    fn h(cs: &[char], p: &mut usize) -> RArea {
        if *p < cs.len() {
            if let Some(i) = AREA_CHARS.chars().position(|c| c == cs[*p]) {
                if i >= 2 {
                    *p += 1;
                    return RArea::Leaf(i as u8);
                }
            }
        }
        RArea::Nil
    }
    fn b(cs: &[char], p: &mut usize) -> RArea {
        // iterative right-nesting
        let mut items = vec![h(cs, p)];
        while *p < cs.len() && cs[*p] == '!' {
            *p += 1;
            items.push(h(cs, p));
        }
        let mut t = items.pop().unwrap();
        while let Some(l) = items.pop() {
            t = RArea::Node(1, Box::new(l), Box::new(t));
        }
        t
    }
    let mut p = 0usize;
    let mut items = vec![b(&cs, &mut p)];
    while p < cs.len() && cs[p] == '?' {
        p += 1;
        items.push(b(&cs, &mut p));
    }
    if p != cs.len() {
        return Err(format!("bad area text {:?} at {}", s, p));
    }
    let mut t = items.pop().unwrap();
    while let Some(l) = items.pop() {
        t = RArea::Node(0, Box::new(l), Box::new(t));
    }
    Ok(t)
}
