//! Transcript matching for the interactive tools: payloads are compared exactly,
//! message wording only by its marker (DESIGN Appendix B).

use crate::runner::truncate;

#[derive(Clone, Debug)]
pub enum Piece {
    Exact(Vec<u8>),
    /// one whole line starting with the marker (`==> ` or `[error] `)
    Marked(&'static str),
    /// one whole line starting with either marker; reports which one
    EitherMarked,
    /// one or more whole lines, up to (not including) the next prompt
    BlockUntilPrompt,
    /// zero or more whole lines, up to the next prompt
    AnyUntilPrompt,
    /// `<idx> | <file>:<line>:<col>  <raw>` with free padding
    Listing { idx: usize, loc: String, raw: String },
    /// program output shown between here and the next prompt (or the end of the transcript): any number
    /// of `[stdout] <text>\n` / `[stderr] <text>\n` chunks, in any order and any chunking, possibly mixed
    /// with informational `==> ` lines; the concatenated payloads per stream must be exactly these texts
    /// (every character once, in order)
    Output { out: Vec<u8>, err: Vec<u8> },
    /// a state display, compared by content: `current stack: N` and one `stack I: [a, b]` line per
    /// stack, in any order; an empty stack may be shown or left out; up to the next prompt
    StateDump { cur: usize, stacks: std::collections::BTreeMap<usize, Vec<String>> },
}

pub struct Expect {
    pub piece: Piece,
    pub clause: &'static str,
    pub note: String,
}

pub const PROMPT: &[u8] = b"> ";

fn line_at(t: &[u8], pos: usize) -> Option<&[u8]> {
    t[pos..].iter().position(|&b| b == b'\n').map(|e| &t[pos..pos + e + 1])
}

fn show(t: &[u8], pos: usize) -> String {
    let end = (pos + 160).min(t.len());
    truncate(&String::from_utf8_lossy(&t[pos.min(t.len())..end]), 200)
}

/// Remove the byte ranges written by the SIGINT handler (recorded offsets).
pub fn excise(t: &[u8], ranges: &[(usize, usize)]) -> Vec<u8> {
    let mut out = Vec::with_capacity(t.len());
    let mut pos = 0usize;
    let mut r: Vec<(usize, usize)> = ranges.to_vec();
    r.sort();
    for (a, b) in r {
        if a >= pos {
            out.extend_from_slice(&t[pos..a.min(t.len())]);
            pos = b.min(t.len());
        }
    }
    out.extend_from_slice(&t[pos..]);
    out
}

/// Walk the transcript.  `Ok((pos, either_choices))`; on mismatch `(clause, expected, observed)`.
pub fn walk(t: &[u8], from: usize, pieces: &[Expect]) -> Result<(usize, Vec<bool>), (String, String, String)> {
    let mut pos = from;
    let mut choices = Vec::new();
    for (k, e) in pieces.iter().enumerate() {
        let fail = |exp: String, pos: usize| {
            Err((
                e.clause.to_string(),
                format!("piece {} ({}): {}", k, e.note, exp),
                format!("at byte {}: {:?}", pos, show(t, pos)),
            ))
        };
        match &e.piece {
            Piece::Output { out, err } => {
                let start = pos;
                let expected: [&Vec<u8>; 2] = [out, err];
                let mut used = [0usize; 2];
                let mut bad: Option<String> = None;
                let is_boundary = |rest: &[u8]| rest.is_empty() || rest.starts_with(PROMPT) || rest.starts_with(b"[stdout] ") || rest.starts_with(b"[stderr] ") || rest.starts_with(b"==> ");
                loop {
                    if pos >= t.len() || t[pos..].starts_with(PROMPT) {
                        break;
                    }
                    if t[pos..].starts_with(b"==> ") {
                        match line_at(t, pos) {
                            Some(l) => pos += l.len(),
                            None => pos = t.len(),
                        }
                        continue;
                    }
                    let s = if t[pos..].starts_with(b"[stdout] ") {
                        0
                    } else if t[pos..].starts_with(b"[stderr] ") {
                        1
                    } else {
                        bad = Some("text that is neither a [stdout]/[stderr] chunk nor a log line".to_string());
                        break;
                    };
                    pos += 9;
                    // the chunk's payload is the longest prefix of what is still expected on that stream that is
                    // followed by a line break and a chunk marker, log line, prompt or the end (the payload may
                    // itself contain line breaks, so the expected text decides where the chunk ends)
                    let rem = &expected[s][used[s]..];
                    let avail = t.len() - pos;
                    let mut k = rem.len().min(avail.saturating_sub(1));
                    let mut found = None;
                    loop {
                        if t[pos..pos + k] == rem[..k] && t.get(pos + k) == Some(&b'\n') && is_boundary(&t[pos + k + 1..]) {
                            found = Some(k);
                            break;
                        }
                        if k == 0 {
                            break;
                        }
                        k -= 1;
                    }
                    match found {
                        Some(k) => {
                            used[s] += k;
                            pos += k + 1;
                        }
                        None => {
                            bad = Some(format!("a {} chunk that does not continue the expected text", if s == 0 { "[stdout]" } else { "[stderr]" }));
                            break;
                        }
                    }
                }
                if bad.is_none() && (used[0] != out.len() || used[1] != err.len()) {
                    bad = Some(format!("only {} of {} stdout bytes and {} of {} stderr bytes were shown", used[0], out.len(), used[1], err.len()));
                }
                if let Some(b) = bad {
                    return Err((
                        e.clause.to_string(),
                        format!(
                            "piece {} ({}): stdout {:?} stderr {:?}, each character once",
                            k,
                            e.note,
                            truncate(&String::from_utf8_lossy(out), 200),
                            truncate(&String::from_utf8_lossy(err), 200)
                        ),
                        format!("{} ; transcript at byte {}: {:?}", b, start, show(t, start)),
                    ));
                }
            }
            Piece::Exact(b) => {
                if b.as_slice() == PROMPT {
                    // informational log lines may precede a prompt
                    while t[pos..].starts_with(b"==> ") {
                        match line_at(t, pos) {
                            Some(l) => pos += l.len(),
                            None => break,
                        }
                    }
                }
                if !t[pos..].starts_with(b) {
                    return fail(format!("{:?}", truncate(&String::from_utf8_lossy(b), 300)), pos);
                }
                pos += b.len();
            }
            Piece::Marked(m) => match line_at(t, pos) {
                Some(l) if l.starts_with(m.as_bytes()) => pos += l.len(),
                _ => return fail(format!("a line starting with {:?}", m), pos),
            },
            Piece::EitherMarked => match line_at(t, pos) {
                Some(l) if l.starts_with(b"==> ") => {
                    choices.push(true);
                    pos += l.len();
                }
                Some(l) if l.starts_with(b"[error] ") => {
                    choices.push(false);
                    pos += l.len();
                }
                _ => return fail("a line starting with \"==> \" or \"[error] \"".to_string(), pos),
            },
            Piece::BlockUntilPrompt | Piece::AnyUntilPrompt => {
                let mut n = 0;
                while !t[pos..].starts_with(PROMPT) {
                    match line_at(t, pos) {
                        Some(l) => {
                            pos += l.len();
                            n += 1;
                        }
                        None => break,
                    }
                }
                if n == 0 && matches!(e.piece, Piece::BlockUntilPrompt) {
                    return fail("at least one line of text".to_string(), pos);
                }
            }
            Piece::StateDump { cur, stacks } => {
                let start = pos;
                let mut shown_cur: Option<usize> = None;
                let mut shown: std::collections::BTreeMap<usize, Vec<String>> = std::collections::BTreeMap::new();
                let mut bad: Option<String> = None;
                while !t[pos..].starts_with(PROMPT) {
                    let l = match line_at(t, pos) {
                        Some(l) => l,
                        None => break,
                    };
                    pos += l.len();
                    let text = String::from_utf8_lossy(l).trim_end_matches('\n').to_string();
                    if let Some(n) = text.strip_prefix("current stack: ") {
                        match (n.trim().parse::<usize>(), shown_cur) {
                            (Ok(n), None) => shown_cur = Some(n),
                            _ => bad = Some(format!("unexpected line {:?}", text)),
                        }
                    } else if let Some(rest) = text.strip_prefix("stack ") {
                        let ok = (|| {
                            let (i, list) = rest.split_once(": ")?;
                            let i: usize = i.parse().ok()?;
                            let inner = list.strip_prefix('[')?.strip_suffix(']')?;
                            let items: Vec<String> = if inner.is_empty() { Vec::new() } else { inner.split(", ").map(|x| x.to_string()).collect() };
                            if shown.insert(i, items).is_some() {
                                return None;
                            }
                            Some(())
                        })();
                        if ok.is_none() {
                            bad = Some(format!("unexpected line {:?}", text));
                        }
                    } else {
                        bad = Some(format!("unexpected line {:?}", text));
                    }
                }
                if bad.is_none() {
                    if shown_cur != Some(*cur) {
                        bad = Some(format!("selected stack shown as {:?}", shown_cur));
                    }
                    for (i, v) in &shown {
                        let want = stacks.get(i).cloned().unwrap_or_default();
                        if *v != want {
                            bad = Some(format!("stack {} shown as {:?}", i, v));
                        }
                    }
                    for (i, v) in stacks {
                        if !v.is_empty() && !shown.contains_key(i) {
                            bad = Some(format!("stack {} not shown", i));
                        }
                    }
                }
                if let Some(b) = bad {
                    let nonempty: Vec<String> = stacks.iter().filter(|(_, v)| !v.is_empty()).map(|(i, v)| format!("stack {}: {:?}", i, v)).collect();
                    return Err((
                        e.clause.to_string(),
                        format!("piece {} ({}): selected stack {} ; {}", k, e.note, cur, nonempty.join(" ; ")),
                        format!("{} ; displayed text at byte {}: {:?}", b, start, show(t, start)),
                    ));
                }
            }
            Piece::Listing { idx, loc, raw } => {
                let ok = match line_at(t, pos) {
                    Some(l) => {
                        let s = String::from_utf8_lossy(l).into_owned();
                        let toks: Vec<&str> = s.split_whitespace().collect();
                        let ok = toks.len() == 4 && toks[0] == idx.to_string() && toks[1] == "|" && toks[2] == loc && toks[3] == raw;
                        if ok {
                            pos += l.len();
                        }
                        ok
                    }
                    None => false,
                };
                if !ok {
                    return fail(format!("listing line `{} | {}  {}`", idx, loc, raw), pos);
                }
            }
        }
    }
    Ok((pos, choices))
}

/// Skip trailing informational lines; returns the position after them.
pub fn skip_log_lines(t: &[u8], mut pos: usize) -> usize {
    while pos < t.len() && t[pos..].starts_with(b"==> ") {
        match t[pos..].iter().position(|&b| b == b'\n') {
            Some(e) => pos += e + 1,
            None => break,
        }
    }
    pos
}
