//! SimWorld driver: installs the hooks, runs a closure as one simulated process and
//! classifies how it ended.

use simcore::{Ev, Plan, SimExit, SimStop, World};
use std::cell::RefCell;
use std::io::{self, Write};
use std::panic::{self, AssertUnwindSafe};
use std::sync::Once;

#[derive(Clone, Debug, PartialEq)]
pub enum Ending {
    /// the entry point returned
    Return,
    /// process::exit(code) requested at `site`
    Exit { site: &'static str, code: i32 },
    /// stopped by the simulator's step clock
    Stop,
    /// a real panic (message)
    Panic(String),
}

impl Ending {
    pub fn describe(&self) -> String {
        match self {
            Ending::Return => "return(0)".to_string(),
            Ending::Exit { site, code } => format!("exit({}) at {}", code, site),
            Ending::Stop => "stopped-by-step-clock".to_string(),
            Ending::Panic(m) => format!("PANIC: {}", m),
        }
    }
}

thread_local! {
    static PANIC_MSG: RefCell<Option<String>> = RefCell::new(None);
}

static HOOK: Once = Once::new();

/// Quiet panic hook that records the message (location included) per thread.
pub fn install_panic_hook() {
    HOOK.call_once(|| {
        panic::set_hook(Box::new(|info| {
            let msg = if let Some(s) = info.payload().downcast_ref::<&str>() {
                s.to_string()
            } else if let Some(s) = info.payload().downcast_ref::<String>() {
                s.clone()
            } else {
                "non-string panic payload".to_string()
            };
            let loc = info.location().map(|l| format!(" at {}:{}", l.file(), l.line())).unwrap_or_default();
            PANIC_MSG.with(|p| *p.borrow_mut() = Some(format!("{}{}", msg, loc)));
        }));
    });
}

fn stdin_cb(buf: &mut String) -> io::Result<usize> {
    let fire = simcore::with(|w| w.plan.sigint_at.contains(&w.line_reads));
    if fire {
        ctrlc::sim_fire();
    }
    simcore::stdin_read_line(buf)
}

fn exit_cb(site: &'static str, code: i32) {
    simcore::with(|w| {
        w.exit = Some((site, code));
        w.log(Ev::Exit { site, code });
    });
    panic::resume_unwind(Box::new(SimExit(code)));
}

fn tick_cb(site: &'static str) {
    let stop = simcore::with(|w| {
        w.ticks += 1;
        if site == "execute_one" {
            w.ticks_exec += 1;
        } else {
            w.ticks_opt += 1;
        }
        if w.plan.tick_budget > 0 && w.ticks > w.plan.tick_budget {
            let t = w.ticks;
            w.log(Ev::Stop { ticks: t });
            true
        } else {
            false
        }
    });
    if stop {
        panic::resume_unwind(Box::new(SimStop));
    }
}

/// Run `f` as one simulated process.
pub fn run_process<R>(plan: Plan, stdin: Vec<u8>, f: impl FnOnce() -> R) -> (Ending, Option<R>, World) {
    install_panic_hook();
    simcore::begin(plan, stdin);
    ctrlc::sim_reset();
    hyeong::util::verif::install(Some(stdin_cb), Some(exit_cb), Some(tick_cb));
    PANIC_MSG.with(|p| *p.borrow_mut() = None);
    let r = panic::catch_unwind(AssertUnwindSafe(f));
    hyeong::util::verif::install(None, None, None);
    ctrlc::sim_reset();
    let world = simcore::end();
    match r {
        Ok(v) => (Ending::Return, Some(v), world),
        Err(payload) => {
            if let Some(e) = payload.downcast_ref::<SimExit>() {
                let site = world.exit.map(|x| x.0).unwrap_or("?");
                (Ending::Exit { site, code: e.0 }, None, world)
            } else if payload.downcast_ref::<SimStop>().is_some() {
                (Ending::Stop, None, world)
            } else {
                let msg = PANIC_MSG
                    .with(|p| p.borrow_mut().take())
                    .unwrap_or_else(|| "panic without message".to_string());
                (Ending::Panic(msg), None, world)
            }
        }
    }
}

/// A `Write` onto one of the simulated process streams (with the plan's faults).
pub struct Sink(pub u8);

impl Write for Sink {
    fn write(&mut self, buf: &[u8]) -> io::Result<usize> {
        let s = self.0;
        simcore::with(|w| w.sink_write(s, buf))
    }
    fn flush(&mut self) -> io::Result<()> {
        Ok(())
    }
}

/// A `ReadLine` over the simulated stdin (the same path the stdin hook uses).
pub struct Reader;

impl hyeong::util::io::ReadLine for Reader {
    fn read_line_(&mut self) -> Result<String, hyeong::util::error::Error> {
        let mut s = String::new();
        simcore::stdin_read_line(&mut s)?;
        Ok(s)
    }
}

/// Scratch directory of this worker thread on /dev/shm (removed by `cleanup_scratch`).
pub fn scratch_dir() -> std::path::PathBuf {
    thread_local! {
        static DIR: RefCell<Option<std::path::PathBuf>> = RefCell::new(None);
    }
    DIR.with(|d| {
        let mut d = d.borrow_mut();
        if d.is_none() {
            let base = scratch_root();
            // fixed-length path: the length of the "parsing <path>" line must not depend on pid or thread
            static NEXT: std::sync::atomic::AtomicUsize = std::sync::atomic::AtomicUsize::new(0);
            let p = base.join(format!("w{:04}", NEXT.fetch_add(1, std::sync::atomic::Ordering::Relaxed)));
            std::fs::create_dir_all(&p).expect("scratch dir");
            *d = Some(p);
        }
        d.clone().unwrap()
    })
}

pub fn scratch_root() -> std::path::PathBuf {
    let base = if std::path::Path::new("/dev/shm").is_dir() { "/dev/shm" } else { "/tmp" };
    std::path::PathBuf::from(format!("{}/vsim-{:010}", base, std::process::id()))
}

pub fn cleanup_scratch() {
    let _ = std::fs::remove_dir_all(scratch_root());
}

/// per-thread cleanup hook (scratch directories are removed at process end)
pub fn cleanup_thread() {}
