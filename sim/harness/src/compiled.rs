//! Emitting Rust source with the real compiler code in-process (SimWorld armed, so a
//! stray stdin read or exit during compilation is an event), then rustc + RealWorld.

use crate::real;
use crate::sim::{self, Ending};
use hyeong::core::code::UnOptCode;
use hyeong::core::state::UnOptState;
use hyeong::core::{compile, optimize};
use simcore::Plan;
use std::path::PathBuf;

pub enum Emit {
    Source(String),
    /// optimize() returned an error (message)
    OptimizeError(String),
    /// an effect or a crash during compilation
    Misbehaved(String),
}

pub const SENTINEL: &[u8] = b"compile-time-sentinel\nsecond line\n";

pub fn emit(parsed: &[UnOptCode], level: u8, tick_budget: u64) -> Emit {
    let mut plan = Plan::default();
    plan.tick_budget = tick_budget;
    let code = parsed.to_vec();
    let (ending, val, world) = sim::run_process(plan, SENTINEL.to_vec(), || {
        if level >= 1 {
            match optimize::optimize(code, level) {
                Ok((state, c)) => Ok(compile::build_source(state, &c, level)),
                Err(e) => Err(e.get_msg()),
            }
        } else {
            Ok(compile::build_source(UnOptState::new(), &code, level))
        }
    });
    if world.line_reads > 0 || world.stdin_pos > 0 {
        return Emit::Misbehaved("compilation read from standard input".into());
    }
    if !world.out.is_empty() || !world.err.is_empty() {
        return Emit::Misbehaved("compilation wrote to the process streams".into());
    }
    match (ending, val) {
        (Ending::Return, Some(Ok(s))) => Emit::Source(s),
        (Ending::Return, Some(Err(m))) => Emit::OptimizeError(m),
        (e, _) => Emit::Misbehaved(format!("compilation ended with {}", e.describe())),
    }
}

/// Write the source unchanged and compile it; returns the executable path.
pub fn build_exe(src: &str, tag: &str) -> Result<PathBuf, String> {
    let dir = sim::scratch_dir().join("cc");
    std::fs::create_dir_all(&dir).map_err(|e| e.to_string())?;
    let sp = dir.join(format!("{}.rs", tag));
    let ep = dir.join(format!("{}.bin", tag));
    std::fs::write(&sp, src).map_err(|e| e.to_string())?;
    let r = real::rustc_compile(&sp, &ep);
    let _ = std::fs::remove_file(&sp);
    r.map(|_| ep)
}
