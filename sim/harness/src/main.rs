//! vsim — deterministic simulation harness for hyeo-ung-lang (see /verif/DESIGN.md).
#![allow(dead_code)]

mod gen;
mod json;
mod compiled;
mod props;
mod real;
mod realpath;
mod transcript;
mod reflang;
mod refnum;
mod rng;
mod runner;
mod scenario;
mod sim;

use json::J;
use runner::{Property, Tier};
use std::time::Instant;

fn property(id: &str) -> Option<Box<dyn Property>> {
    match id {
        "C01" => Some(Box::new(props::c01::C01)),
        "C02" => Some(Box::new(props::c02::C02)),
        "C03" => Some(Box::new(props::c03::C03)),
        "C10" => Some(Box::new(props::c10::C10)),
        "C11" => Some(Box::new(props::c11::C11)),
        "C12" => Some(Box::new(props::c12::C12)),
        "C13" => Some(Box::new(props::c13::C13)),
        "C14" => Some(Box::new(props::c14::C14)),
        _ => None,
    }
}

struct Args {
    cmd: String,
    tier: Tier,
    seed: u64,
    replay: Option<String>,
    runs: Option<u64>,
    only: Option<u64>,
    trace: Option<String>,
    evidence_dir: String,
    replay_dir: String,
    rest: Vec<String>,
}

pub fn home() -> String {
    std::env::var("VERIF_HOME").unwrap_or_else(|_| "/verif".to_string())
}

fn parse_args() -> Args {
    let mut a = Args {
        cmd: String::new(),
        tier: match std::env::var("VERIF_TIER").as_deref() {
            Ok("thorough") => Tier::Thorough,
            _ => Tier::Quick,
        },
        seed: std::env::var("VERIF_SEED").ok().and_then(|s| s.parse().ok()).unwrap_or(1),
        replay: None,
        runs: None,
        only: None,
        trace: None,
        evidence_dir: format!("{}/evidence", home()),
        replay_dir: format!("{}/replays", home()),
        rest: Vec::new(),
    };
    let v: Vec<String> = std::env::args().skip(1).collect();
    let mut i = 0;
    while i < v.len() {
        match v[i].as_str() {
            "quick" => a.tier = Tier::Quick,
            "thorough" => a.tier = Tier::Thorough,
            "--tier" => {
                i += 1;
                a.tier = if v[i] == "thorough" { Tier::Thorough } else { Tier::Quick };
            }
            "--seed" => {
                i += 1;
                a.seed = v[i].parse().expect("seed");
            }
            "--replay" => {
                i += 1;
                a.replay = Some(v[i].clone());
            }
            "--runs" => {
                i += 1;
                a.runs = Some(v[i].parse().expect("runs"));
            }
            "--only" => {
                i += 1;
                a.only = Some(v[i].parse().expect("only"));
            }
            "--trace" => {
                i += 1;
                a.trace = Some(v[i].clone());
            }
            "--evidence-dir" => {
                i += 1;
                a.evidence_dir = v[i].clone();
            }
            "--replay-dir" => {
                i += 1;
                a.replay_dir = v[i].clone();
            }
            x if a.cmd.is_empty() => a.cmd = x.to_string(),
            x => a.rest.push(x.to_string()),
        }
        i += 1;
    }
    a
}

const DONE_MARKER: &str = "VSIM-DONE ";

fn main() {
    let a = parse_args();
    let is_check = property(&a.cmd).is_some();
    if is_check && std::env::var("VSIM_CHILD").is_err() && std::env::var("VSIM_NO_SUPERVISOR").is_err() {
        std::process::exit(supervisor(&a));
    }
    let code = real_main();
    sim::cleanup_scratch();
    if std::env::var("VSIM_CHILD").is_ok() {
        println!("{}{}", DONE_MARKER, code);
    }
    std::process::exit(code);
}

/// What became of a worker process.
enum ChildEnd {
    /// ran to the end and said so
    Done(i32),
    /// died: exit status / signal without the completion marker
    Died(String),
    /// a run made no progress for too long
    Hung(u64),
}

/// Run this executable again as the worker process, forward its output, watch its progress.
fn run_child(extra: &[String], progress_dir: &str, hang_secs: u64) -> ChildEnd {
    use std::io::{BufRead, BufReader};
    use std::os::unix::process::ExitStatusExt;
    let me = std::env::current_exe().expect("exe");
    let args: Vec<String> = std::env::args().skip(1).chain(extra.iter().cloned()).collect();
    let _ = std::fs::remove_dir_all(progress_dir);
    std::fs::create_dir_all(progress_dir).expect("progress dir");
    let mut child = std::process::Command::new(me)
        .args(&args)
        .env("VSIM_CHILD", "1")
        .env("VSIM_PROGRESS", progress_dir)
        .stdout(std::process::Stdio::piped())
        .spawn()
        .expect("spawn worker process");
    let child_pid = child.id();
    let out = child.stdout.take().unwrap();
    let reader = std::thread::spawn(move || {
        let mut done: Option<i32> = None;
        for line in BufReader::new(out).lines().map_while(Result::ok) {
            if let Some(c) = line.strip_prefix(DONE_MARKER) {
                done = c.trim().parse().ok();
            } else {
                println!("{}", line);
            }
        }
        done
    });
    // watchdog: a single run that makes no progress for `hang_secs` of wall clock
    let mut hung: Option<u64> = None;
    let status = loop {
        match child.try_wait() {
            Ok(Some(s)) => break Some(s),
            Ok(None) => {}
            Err(_) => break None,
        }
        std::thread::sleep(std::time::Duration::from_millis(500));
        let now = std::time::SystemTime::now().duration_since(std::time::UNIX_EPOCH).map(|d| d.as_secs()).unwrap_or(0);
        if let Some((i, _)) = runner::progress::read_all(progress_dir).into_iter().find(|(_, t)| *t > 0 && now.saturating_sub(*t) > hang_secs) {
            hung = Some(i);
            let _ = child.kill();
            break child.wait().ok();
        }
    };
    let done = reader.join().unwrap_or(None);
    // a worker that died could not remove its scratch directory
    if let Some(parent) = sim::scratch_root().parent() {
        let _ = std::fs::remove_dir_all(parent.join(format!("vsim-{:010}", child_pid)));
    }
    if let Some(i) = hung {
        return ChildEnd::Hung(i);
    }
    match (status, done) {
        (Some(s), Some(c)) if s.code() == Some(c) => ChildEnd::Done(c),
        (Some(s), _) => ChildEnd::Died(match (s.code(), s.signal()) {
            (Some(c), _) => format!("worker process exited with status {} without finishing", c),
            (_, Some(sig)) => format!("worker process killed by signal {}", sig),
            _ => "worker process vanished".to_string(),
        }),
        (None, _) => ChildEnd::Died("worker process could not be waited for".to_string()),
    }
}

/// The supervisor: the code under test runs in a worker process, so that a raw process exit,
/// abort, stack overflow or hang inside it is reported as a violation of the run that caused it
/// instead of silently ending the check.
fn supervisor(a: &Args) -> i32 {
    let p = property(&a.cmd).unwrap();
    let dir = format!("{}/progress", sim::scratch_root().display());
    let hang_secs: u64 = std::env::var("VERIF_HANG_SECS").ok().and_then(|s| s.parse().ok()).unwrap_or(600);
    let end = run_child(&[], &dir, hang_secs);
    let code = match end {
        ChildEnd::Done(0) if a.replay.is_none() && a.only.is_none() && std::env::var("VERIF_SKIP_FRESH").is_err() => {
            // SimWorld shares one process between simulated processes: process-wide state in the code
            // under test (a one-shot static flag) would be seen by the first run only.  A slice of the
            // runs is therefore repeated with one fresh worker process per run.
            let k: u64 = p.fresh_runs(a.tier);
            let n = a.runs.unwrap_or_else(|| p.runs(a.tier)).min(k);
            let next = std::sync::atomic::AtomicU64::new(0);
            let bad = std::sync::Mutex::new(Vec::<(u64, String)>::new());
            std::thread::scope(|s| {
                for _ in 0..runner::workers() {
                    s.spawn(|| loop {
                        let i = next.fetch_add(1, std::sync::atomic::Ordering::Relaxed);
                        if i >= n || !bad.lock().unwrap().is_empty() {
                            break;
                        }
                        let me = std::env::current_exe().expect("exe");
                        let args: Vec<String> = std::env::args().skip(1).collect();
                        let o = std::process::Command::new(me)
                            .args(&args)
                            .arg("--only")
                            .arg(i.to_string())
                            .env("VSIM_CHILD", "1")
                            .env("VSIM_FRESH_REPORT", "1")
                            .env("VERIF_SKIP_REAL", "1")
                            .env_remove("VSIM_PROGRESS")
                            .output();
                        if let Ok(o) = o {
                            let text = String::from_utf8_lossy(&o.stdout).into_owned();
                            if o.status.code() == Some(1) && text.contains("VIOLATION property=") {
                                bad.lock().unwrap().push((i, text));
                            }
                        }
                    });
                }
            });
            let mut b = bad.into_inner().unwrap();
            b.sort();
            match b.into_iter().next() {
                Some((_, text)) => {
                    for l in text.lines() {
                        if !l.starts_with(DONE_MARKER) && !l.starts_with("run ") {
                            println!("{}", l);
                        }
                    }
                    1
                }
                None => {
                    println!("fresh-process slice: {} runs, one worker process each: no violation", n);
                    0
                }
            }
        }
        ChildEnd::Done(c) => c,
        ChildEnd::Died(_) | ChildEnd::Hung(_) => {
            let what = match &end {
                ChildEnd::Died(m) => m.clone(),
                ChildEnd::Hung(i) => format!("run {} made no progress for {} s", i, hang_secs),
                _ => unreachable!(),
            };
            println!("worker process did not finish: {} — looking for the run that caused it", what);
            if let Some(f) = &a.replay {
                println!("  clause=process-death");
                println!("  observed : {}", what);
                println!("VIOLATION property={} replay={}", p.id(), f);
                1
            } else {
                let mut cands: Vec<u64> = runner::progress::read_all(&dir).into_iter().map(|x| x.0).collect();
                if let ChildEnd::Hung(i) = &end {
                    cands = vec![*i];
                }
                cands.dedup();
                let mut verdict = 2;
                for i in cands {
                    let sub = format!("{}-only", dir);
                    let e = run_child(&["--only".to_string(), i.to_string()], &sub, hang_secs);
                    let (clause, obs) = match e {
                        ChildEnd::Done(_) => continue,
                        ChildEnd::Died(m) => ("process-death", m),
                        ChildEnd::Hung(_) => ("hang", format!("the run alone made no progress for {} s of wall clock (no step-clock tick either)", hang_secs)),
                    };
                    let sc = runner::make_scenario(p.as_ref(), a.seed, i, a.tier);
                    let v = runner::Violation::new(clause, "the run ends inside the simulator (return, hooked exit, step clock)", obs.clone());
                    let rdir = format!("{}/{}", a.replay_dir, p.id());
                    std::fs::create_dir_all(&rdir).ok();
                    let path = format!("{}/{}-{}.json", rdir, a.seed, i);
                    let j = runner::replay_json(&sc, &v, &runner::RunOut::default(), 0);
                    std::fs::write(&path, j.pretty()).expect("write replay");
                    println!("  clause   : {}", clause);
                    println!("  observed : {}", obs);
                    println!("  program  : {}", runner::truncate(&sc.source(), 600));
                    println!("VIOLATION property={} replay={}", p.id(), path);
                    verdict = 1;
                    break;
                }
                if verdict == 2 {
                    println!("HARNESS-ERROR: the worker process died ({}) and no single run reproduces it", what);
                }
                verdict
            }
        }
    };
    sim::cleanup_scratch();
    code
}

fn real_main() -> i32 {
    let a = parse_args();
    sim::install_panic_hook();
    if let Some(p) = property(&a.cmd) {
        if let Some(f) = &a.replay {
            return replay(p.as_ref(), f);
        }
        if let Some(i) = a.only {
            // one run, nothing else (used by the supervisor to find the run that kills the process)
            let sc = runner::make_scenario(p.as_ref(), a.seed, i, a.tier);
            runner::progress::set(i);
            let out = p.run(&sc);
            runner::progress::set(runner::progress::IDLE);
            println!("run {}: violation={:?}", i, out.violation.as_ref().map(|v| v.clause.clone()));
            if let (Some(v), true) = (&out.violation, std::env::var("VSIM_FRESH_REPORT").is_ok()) {
                // fresh-process slice: report directly (the violation may exist only in the first run of a process)
                let dir = format!("{}/{}", a.replay_dir, p.id());
                std::fs::create_dir_all(&dir).ok();
                let path = format!("{}/{}-{}-fresh.json", dir, a.seed, i);
                let mut j = runner::replay_json(&sc, v, &out, 0);
                j.put("fresh_process", J::Bool(true));
                std::fs::write(&path, j.pretty()).expect("write replay");
                println!("  clause   : {}", v.clause);
                println!("  expected : {}", runner::truncate(&v.expected, 600));
                println!("  observed : {}", runner::truncate(&v.observed, 600));
                println!("  program  : {}", runner::truncate(&sc.source(), 600));
                println!("  note     : found in the fresh-process slice (each run in a process of its own)");
                println!("VIOLATION property={} replay={}", p.id(), path);
                return 1;
            }
            return 0;
        }
        return check(p.as_ref(), &a);
    }
    match a.cmd.as_str() {
        "selftest-refnum" => selftest_refnum(&a),
        "show" => {
            // show <prop> <run>: print the scenario of one run index
            let p = property(&a.rest[0]).expect("property");
            let i: u64 = a.rest[1].parse().expect("run");
            let sc = runner::make_scenario(p.as_ref(), a.seed, i, a.tier);
            println!("{}", sc.to_json().pretty());
            let out = p.run(&sc);
            println!("violation: {:?}\nnontrivial: {} ticks: {} counters: {:?}", out.violation, out.nontrivial, out.ticks, out.counters);
            0
        }
        "gotostats" => {
            // how often do terminating goto machines show the rare control-flow events?
            let mut rng = rng::Rng::new(a.seed);
            let (mut n, mut term) = (0u64, 0u64);
            let mut ev = [0u64; 4];
            let mut evt = [0u64; 4];
            for _ in 0..a.runs.unwrap_or(20000) {
                let cmds = gen::goto_machine(&mut rng, false);
                let p = reflang::preflight(&cmds, b"", 3000, 96, false);
                n += 1;
                let t = matches!(p.halt, reflang::Halt::Ended(reflang::End::End) | reflang::Halt::Ended(reflang::End::Exit(_)));
                if t {
                    term += 1;
                }
                for (k, pr) in [reflang::probe::FWD_JUMP, reflang::probe::JUMP_FROM_FIRST, reflang::probe::RETURN_TO_FIRST, reflang::probe::RETURN_TO_SELF].iter().enumerate() {
                    if p.m.probes[*pr] > 0 {
                        ev[k] += 1;
                        if t {
                            evt[k] += 1;
                        }
                    }
                }
            }
            println!("goto machines {} terminating {} ; fwd/from_first/ret_first/ret_self all {:?} terminating {:?}", n, term, ev, evt);
            0
        }
        "model" => {
            // model <program text> [stdin text]: run the reference model on what the real parser returns
            let text = a.rest.first().cloned().unwrap_or_default();
            let stdin = a.rest.get(1).cloned().unwrap_or_default();
            let parsed = hyeong::core::parse::parse(text);
            let cmds = props::c13::cmds_from_parsed(&parsed);
            let p = reflang::preflight(&cmds, stdin.as_bytes(), 100000, 4096, false);
            println!("halt: {:?} after {} steps", p.halt, p.safe_steps);
            println!("stdout: {:?}", String::from_utf8_lossy(&p.m.out));
            println!("stderr: {:?}", String::from_utf8_lossy(&p.m.err));
            let pr: Vec<String> = reflang::probe::NAMES.iter().enumerate().filter(|(i, _)| p.m.probes[*i] > 0).map(|(i, n)| format!("{}={}", n, p.m.probes[i])).collect();
            println!("probes: {}", pr.join(" "));
            println!("c03 boundary features: {:#x}", props::c03::boundary_features(&cmds, stdin.as_bytes(), 3000));
            for (i, st) in &p.m.stacks {
                println!("stack {}: {:?}", i, st.iter().map(|v| v.text()).collect::<Vec<_>>());
            }
            0
        }
        _ => {
            eprintln!("usage: vsim <C01|...|selftest-refnum|show> [quick|thorough] [--seed N] [--replay FILE] [--runs N]");
            2
        }
    }
}

fn known_findings(id: &str) -> Vec<(String, String, String)> {
    // lines: "open: property=<id> clause=<clause> match=<substring of program text> <description>"
    let mut v = Vec::new();
    if let Ok(s) = std::fs::read_to_string(format!("{}/KNOWN_FINDINGS.txt", home())) {
        for l in s.lines() {
            let l = l.trim();
            if !l.starts_with("open:") {
                continue;
            }
            let mut prop = String::new();
            let mut clause = String::new();
            let mut mat = String::new();
            for w in l.split_whitespace() {
                if let Some(x) = w.strip_prefix("property=") {
                    prop = x.to_string();
                } else if let Some(x) = w.strip_prefix("clause=") {
                    clause = x.to_string();
                } else if let Some(x) = w.strip_prefix("match=") {
                    mat = x.to_string();
                }
            }
            if prop == id {
                v.push((clause, mat, l.to_string()));
            }
        }
    }
    v
}

fn check(p: &dyn Property, a: &Args) -> i32 {
    let t0 = Instant::now();
    let n = a.runs.unwrap_or_else(|| p.runs(a.tier));
    println!("vsim {} tier={} VERIF_SEED={} runs={} workers={}", p.id(), a.tier.name(), a.seed, n, runner::workers());
    let mut res = runner::search(p, a.seed, a.tier, n, a.trace.as_deref());
    let mut first = res.first.take();
    if first.is_none() && std::env::var("VERIF_SKIP_REAL").is_err() {
        first = p.post(a.tier, a.seed, &mut res.stats);
    }
    let mut violations = 0;
    let mut exit = 0;
    if let Some((sc, v)) = first {
        println!("violation found at run {} clause={} — minimising", sc.run, v.clause);
        let (msc, mv, runs) = if v.world == "sim" { runner::minimise(p, sc, v, 3000) } else { (sc, v, 0) };
        let out = p.run(&msc);
        // known finding?
        let text = msc.source();
        let known = known_findings(p.id()).into_iter().find(|(c, m, _)| *c == mv.clause && text.contains(m.as_str()));
        if let Some((_, _, line)) = known {
            println!("KNOWN-FINDING: property={} {}", p.id(), line);
        } else {
            let dir = format!("{}/{}", a.replay_dir, p.id());
            std::fs::create_dir_all(&dir).ok();
            let path = format!("{}/{}-{}.json", dir, a.seed, msc.run);
            let j = runner::replay_json(&msc, &mv, &out, runs);
            std::fs::write(&path, j.pretty()).expect("write replay");
            // the replay must reproduce in a fresh process before we report
            let me = std::env::current_exe().expect("exe");
            // The simulator itself is deterministic (selftest-determinism), so a violation that does not
            // replay every time means the code under test depends on something per process (hash order):
            // try a few fresh processes and say how many reproduced.
            let mut reproduced_n = 0;
            let mut tried = 0;
            for _ in 0..8 {
                tried += 1;
                let r = std::process::Command::new(&me).arg(p.id()).arg("--replay").arg(&path).env("VSIM_NO_SUPERVISOR", "1").env_remove("VSIM_CHILD").env_remove("VSIM_PROGRESS").output();
                let ok = match &r {
                    Ok(o) => o.status.code() == Some(1) && String::from_utf8_lossy(&o.stdout).contains(&format!("clause={}", mv.clause)),
                    Err(_) => false,
                };
                if ok {
                    reproduced_n += 1;
                }
                if (reproduced_n >= 1 && tried == 1) || reproduced_n >= 2 {
                    break;
                }
            }
            let reproduced = reproduced_n > 0;
            if reproduced && reproduced_n < tried {
                println!("  note     : the replay reproduced in {} of {} fresh processes: the behaviour depends on per-process state (hash order)", reproduced_n, tried);
            }
            println!("  clause   : {}", mv.clause);
            println!("  expected : {}", runner::truncate(&mv.expected, 600));
            println!("  observed : {}", runner::truncate(&mv.observed, 600));
            println!("  program  : {}", runner::truncate(&text, 600));
            if !reproduced {
                println!("HARNESS-ERROR: replay of {} did not reproduce the violation", path);
                write_evidence(p, a, &res.stats, n, t0.elapsed().as_secs_f64(), 1);
                return 2;
            }
            println!("VIOLATION property={} replay={}", p.id(), path);
            violations = 1;
            exit = 1;
        }
    }
    write_evidence(p, a, &res.stats, n, t0.elapsed().as_secs_f64(), violations);
    if exit == 0 {
        println!(
            "OK {}: {} runs, {} distinct non-trivial, {:.1}s",
            p.id(),
            res.stats.evaluations,
            res.stats.nontrivial_hashes.len(),
            t0.elapsed().as_secs_f64()
        );
    }
    exit
}

fn write_evidence(p: &dyn Property, a: &Args, st: &runner::Stats, planned: u64, wall: f64, violations: i64) {
    let mut faults = J::obj();
    let mut probes = J::obj();
    for (k, v) in &st.counters {
        let entry = J::obj().set("fired", J::Int(*v as i64)).set("runs", J::Int(*st.runs_with.get(k).unwrap_or(&0) as i64));
        if k.starts_with('F') && k.as_bytes().get(1).map_or(false, |b| b.is_ascii_digit()) {
            faults.put(k, entry);
        } else {
            probes.put(k, entry);
        }
    }
    let mut cov = J::obj()
        .set("evaluations", J::Int(st.evaluations as i64))
        .set("distinct_nontrivial", J::Int(st.nontrivial_hashes.len() as i64))
        .set("rule", J::str(p.rule()))
        .set("samples", J::Arr(st.samples.clone()))
        .set("planned_runs", J::Int(planned as i64))
        .set("runs_per_hour", J::Int(if wall > 0.0 { (st.evaluations as f64 / wall * 3600.0) as i64 } else { 0 }))
        .set("simulated_steps", J::Int(st.ticks as i64))
        .set("simulated_time_note", J::str("the code has no clock or timer; simulated time is counted in interpreter steps (ticks)"))
        .set("distinct_run_shapes", J::Int(st.shapes.len() as i64))
        .set("distinct_run_shapes_measure", J::str("a run's shape = the property's abstract summary of what happened in it (which reach probes fired, bucketed 0/1/2-4/5-20/>20, and how the run ended; for the interactive tools: depth reached, lines consumed, which history features occurred); the count is the number of distinct summaries over all runs"))
        .set("faults_injected", faults)
        .set("reach_probes", probes)
        .set("skipped", J::from_map(&st.skipped))
        .set("components", p.components())
        .set("workers", J::Int(runner::workers() as i64));
    if p.level() == "translation_validation" {
        cov.put("programs", J::Int(*st.counters.get("programs").unwrap_or(&0) as i64));
        cov.put("disagreements_checked", J::Int(*st.counters.get("compiled_runs").unwrap_or(&0) as i64));
    }
    for (k, v) in &st.extra {
        cov.put(k, v.clone());
    }
    let j = J::obj()
        .set("property_id", J::str(p.id()))
        .set("tier", J::str(a.tier.name()))
        .set("seed", J::Int(a.seed as i64))
        .set("level", J::str(p.level()))
        .set("coverage", cov)
        .set("assumptions", J::Arr(p.assumptions().iter().map(|s| J::str(s)).collect()))
        .set("wall_s", J::Num(wall))
        .set("violations", J::Int(violations));
    std::fs::create_dir_all(&a.evidence_dir).ok();
    std::fs::write(format!("{}/{}.json", a.evidence_dir, p.id()), j.pretty()).expect("write evidence");
}

fn replay(p: &dyn Property, file: &str) -> i32 {
    let text = match std::fs::read_to_string(file) {
        Ok(t) => t,
        Err(e) => {
            eprintln!("cannot read {}: {}", file, e);
            return 2;
        }
    };
    let j = match json::parse(&text) {
        Ok(j) => j,
        Err(e) => {
            eprintln!("bad replay file: {}", e);
            return 2;
        }
    };
    let sc = match scenario::Scenario::from_json(&j) {
        Ok(s) => s,
        Err(e) => {
            eprintln!("bad scenario: {}", e);
            return 2;
        }
    };
    let real = j.get("world").and_then(|x| x.as_str()) == Some("real");
    let mut out = runner::RunOut::default();
    if real {
        out.violation = p.replay_real(&sc);
    } else {
        out = p.run(&sc);
    }
    println!("replay {} world={} event_log_hash={:016x}", file, if real { "real" } else { "sim" }, out.log_hash);
    match out.violation {
        Some(v) => {
            println!("  clause={}", v.clause);
            println!("  expected : {}", runner::truncate(&v.expected, 1500));
            println!("  observed : {}", runner::truncate(&v.observed, 1500));
            let want = j.get("event_log_hash").and_then(|x| x.as_str()).unwrap_or("");
            if !real && !want.is_empty() && want != format!("{:016x}", out.log_hash) {
                println!("  note: event log hash differs from the recorded one ({})", want);
            }
            println!("VIOLATION property={} replay={}", p.id(), file);
            1
        }
        None => {
            println!("NOT REPRODUCED: the scenario holds on this tree");
            0
        }
    }
}

fn selftest_refnum(a: &Args) -> i32 {
    // emit a corpus "op a b result" for /verif/tools/refnum_check.py
    use refnum::{Int, Rat};
    let mut rng = rng::Rng::new(a.seed ^ 0x5151);
    let mut out = String::new();
    let big = |rng: &mut rng::Rng| -> Int {
        let limbs = rng.usize(0, 5);
        let mut v = Int::zero();
        let b32 = Int::from_u64(1u64 << 32);
        for _ in 0..limbs {
            let l = match rng.below(6) {
                0 => 0u64,
                1 => 1,
                2 => 0xFFFF_FFFF,
                3 => 0x8000_0000,
                _ => rng.next() & 0xFFFF_FFFF,
            };
            v = v.mul(&b32).add(&Int::from_u64(l));
        }
        if rng.chance(40) {
            v = v.neg();
        }
        v
    };
    let n = a.runs.unwrap_or(20000);
    for _ in 0..n {
        let x = big(&mut rng);
        let y = big(&mut rng);
        out.push_str(&format!("add {} {} {}\n", x.to_dec(), y.to_dec(), x.add(&y).to_dec()));
        out.push_str(&format!("sub {} {} {}\n", x.to_dec(), y.to_dec(), x.sub(&y).to_dec()));
        out.push_str(&format!("mul {} {} {}\n", x.to_dec(), y.to_dec(), x.mul(&y).to_dec()));
        if !y.is_zero() {
            let (q, r) = x.divrem(&y);
            out.push_str(&format!("divrem {} {} {} {}\n", x.to_dec(), y.to_dec(), q.to_dec(), r.to_dec()));
            out.push_str(&format!("gcd {} {} {}\n", x.to_dec(), y.to_dec(), x.gcd(&y).to_dec()));
        }
        let rt = Int::from_dec(&x.to_dec()).unwrap();
        assert_eq!(rt, x);
        // rationals
        let small = |rng: &mut rng::Rng| -> Int {
            let v = Int::from_u64(rng.below(50));
            if rng.chance(40) {
                v.neg()
            } else {
                v
            }
        };
        let (p, q) = if rng.chance(50) { (big(&mut rng), big(&mut rng)) } else { (small(&mut rng), small(&mut rng)) };
        let (r, s) = if rng.chance(50) { (big(&mut rng), big(&mut rng)) } else { (small(&mut rng), small(&mut rng)) };
        let u = Rat::make(p.clone(), q.clone());
        let w = Rat::make(r.clone(), s.clone());
        out.push_str(&format!("rat {} {} {}\n", p.to_dec(), q.to_dec(), u.text()));
        out.push_str(&format!("radd {} {} {} {} {}\n", p.to_dec(), q.to_dec(), r.to_dec(), s.to_dec(), u.add(&w).text()));
        out.push_str(&format!("rmul {} {} {} {} {}\n", p.to_dec(), q.to_dec(), r.to_dec(), s.to_dec(), u.mul(&w).text()));
        out.push_str(&format!("rrec {} {} {}\n", p.to_dec(), q.to_dec(), u.recip().text()));
        out.push_str(&format!("rneg {} {} {}\n", p.to_dec(), q.to_dec(), u.neg().text()));
        let c = rng.below(60);
        let o = match u.cmp_u64(c) {
            None => "none",
            Some(std::cmp::Ordering::Less) => "lt",
            Some(std::cmp::Ordering::Equal) => "eq",
            Some(std::cmp::Ordering::Greater) => "gt",
        };
        out.push_str(&format!("rcmp {} {} {} {}\n", p.to_dec(), q.to_dec(), c, o));
        if !u.is_nan() && !u.is_negative() {
            out.push_str(&format!("rfloor {} {} {}\n", p.to_dec(), q.to_dec(), u.floor_nonneg().to_dec()));
        }
    }
    let path = a.rest.first().cloned().unwrap_or_else(|| "/dev/stdout".into());
    std::fs::write(&path, out).expect("write corpus");
    0
}
