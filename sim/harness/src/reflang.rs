//! Executable reference definition of the language (DESIGN Appendix A).
//! Written from the language description, not transliterated from src/core.

use crate::refnum::{Int, Rat, NAN_TEXT};
use std::cmp::Ordering;
use std::collections::{BTreeMap, HashMap};

#[derive(Clone, Debug, PartialEq, Eq, Hash)]
pub enum RArea {
    Nil,
    /// heart 2..=12 (labels) or 13 (♡)
    Leaf(u8),
    /// 0 = `?`, 1 = `!`
    Node(u8, Box<RArea>, Box<RArea>),
}

pub const AREA_CHARS: &str = "?!♥❤💕💖💗💘💙💚💛💜💝♡";

impl RArea {
    pub fn is_nil(&self) -> bool {
        matches!(self, RArea::Nil)
    }
    /// prefix rendering, identical in shape to `Debug for Area` in the repo
    pub fn prefix(&self, out: &mut String) {
        // iterative to survive deep right-nested chains
        let mut stack: Vec<&RArea> = vec![self];
        while let Some(a) = stack.pop() {
            match a {
                RArea::Nil => out.push('_'),
                RArea::Leaf(t) => out.push(AREA_CHARS.chars().nth(*t as usize).unwrap()),
                RArea::Node(t, l, r) => {
                    out.push(if *t == 0 { '?' } else { '!' });
                    stack.push(r);
                    stack.push(l);
                }
            }
        }
    }
    pub fn prefix_string(&self) -> String {
        let mut s = String::new();
        self.prefix(&mut s);
        s
    }
    /// canonical source spelling (DESIGN 2.6): the grammar's own infix form
    pub fn source(&self, out: &mut String) {
        let mut stack: Vec<Result<&RArea, char>> = vec![Ok(self)];
        while let Some(x) = stack.pop() {
            match x {
                Err(c) => out.push(c),
                Ok(RArea::Nil) => {}
                Ok(RArea::Leaf(t)) => out.push(AREA_CHARS.chars().nth(*t as usize).unwrap()),
                Ok(RArea::Node(t, l, r)) => {
                    stack.push(Ok(r));
                    stack.push(Err(if *t == 0 { '?' } else { '!' }));
                    stack.push(Ok(l));
                }
            }
        }
    }
    pub fn ops(&self) -> usize {
        let mut n = 0;
        let mut stack = vec![self];
        while let Some(a) = stack.pop() {
            if let RArea::Node(_, l, r) = a {
                n += 1;
                stack.push(l);
                stack.push(r);
            }
        }
        n
    }
    /// non-recursive drop helper is unnecessary: chains are bounded by the generator
    pub fn hearts(&self, out: &mut Vec<u8>) {
        let mut stack = vec![self];
        while let Some(a) = stack.pop() {
            match a {
                RArea::Leaf(t) => out.push(*t),
                RArea::Node(_, l, r) => {
                    stack.push(l);
                    stack.push(r);
                }
                RArea::Nil => {}
            }
        }
    }
}

#[derive(Clone, Debug, PartialEq, Eq, Hash)]
pub struct Cmd {
    /// 0 형 1 항 2 핫 3 흣 4 흡 5 흑
    pub kind: u8,
    pub h: usize,
    pub d: usize,
    pub area: RArea,
}

impl Cmd {
    pub fn new(kind: u8, h: usize, d: usize, area: RArea) -> Cmd {
        Cmd { kind, h, d, area }
    }
    pub fn count(&self) -> u64 {
        self.h as u64 * self.d as u64
    }
    /// canonical spelling of the command
    pub fn source(&self, out: &mut String) {
        const ONE: [char; 6] = ['형', '항', '핫', '흣', '흡', '흑'];
        const FIRST: [char; 6] = ['혀', '하', '하', '흐', '흐', '흐'];
        const MID: [char; 6] = ['어', '아', '아', '으', '으', '으'];
        const LAST: [char; 6] = ['엉', '앙', '앗', '읏', '읍', '윽'];
        let k = self.kind as usize;
        if self.h == 1 {
            out.push(ONE[k]);
        } else {
            out.push(FIRST[k]);
            for _ in 0..self.h - 2 {
                out.push(MID[k]);
            }
            out.push(LAST[k]);
        }
        for _ in 0..self.d {
            out.push('.');
        }
        self.area.source(out);
    }
    pub fn short(&self) -> String {
        let mut s = String::new();
        self.source(&mut s);
        if s.chars().count() > 40 {
            format!("{}_{}_{} {}", ['형', '항', '핫', '흣', '흡', '흑'][self.kind as usize], self.h, self.d, {
                let mut a = String::new();
                self.area.source(&mut a);
                a
            })
        } else {
            s
        }
    }
}

pub fn program_source(cmds: &[Cmd]) -> String {
    let mut s = String::new();
    for (i, c) in cmds.iter().enumerate() {
        if i > 0 {
            s.push(' ');
        }
        c.source(&mut s);
    }
    s
}

#[derive(Clone, Debug, PartialEq, Eq)]
pub enum End {
    /// control passed the last command
    End,
    /// program popped stack 1 (0) or 2 (1)
    Exit(i32),
    /// a non-negative value whose floor is not a Unicode scalar value was written
    Encoding(u64),
    /// the line the program tried to read is not valid UTF-8
    InputEncoding,
    /// behaviour the sources declare unspecified
    Unspecified(&'static str),
}

pub mod probe {
    pub const JUMP: usize = 0;
    pub const HEART_RETURN: usize = 1;
    pub const Q_LEFT: usize = 2;
    pub const Q_RIGHT: usize = 3;
    pub const B_LEFT: usize = 4;
    pub const B_RIGHT: usize = 5;
    pub const READ_LINE: usize = 6;
    pub const READ_EOF: usize = 7;
    pub const OUT_CHAR: usize = 8;
    pub const OUT_NEG: usize = 9;
    pub const OUT_NAN: usize = 10;
    pub const ERR_WRITE: usize = 11;
    pub const EMPTY_POP: usize = 12;
    pub const NAN_DROPPED: usize = 13;
    pub const FRACTION: usize = 14;
    pub const NEGATIVE: usize = 15;
    pub const DIV_ZERO: usize = 16;
    pub const CMP_NONZERO_COUNT: usize = 17;
    pub const CMP_FRACTION: usize = 18;
    pub const CMP_NAN: usize = 19;
    pub const LABEL_SET: usize = 20;
    pub const LABEL_SELF: usize = 21;
    pub const AREA_POP_IO: usize = 22;
    pub const MULTI_OPERAND_NEG: usize = 23;
    pub const MULTI_OPERAND_REC: usize = 24;
    pub const HIGH_STACK: usize = 25;
    pub const OUT_ASTRAL: usize = 26;
    pub const BIG_VALUE: usize = 27;
    pub const FWD_JUMP: usize = 28;
    pub const MULTI_LIMB: usize = 29;
    pub const JUMP_FROM_FIRST: usize = 30;
    pub const RETURN_TO_FIRST: usize = 31;
    pub const RETURN_TO_SELF: usize = 32;
    pub const N: usize = 33;
    pub const NAMES: [&str; N] = [
        "jump_taken",
        "heart_return_taken",
        "q_left",
        "q_right",
        "b_left",
        "b_right",
        "line_read",
        "read_at_eof",
        "out_char",
        "out_negative_as_text",
        "out_nan",
        "stderr_write",
        "pop_from_empty",
        "nan_dropped_on_empty",
        "fraction_produced",
        "negative_produced",
        "reciprocal_of_zero",
        "compare_against_nonzero_count",
        "compare_fraction",
        "compare_nan",
        "label_registered",
        "label_self_reference",
        "area_pop_from_io_stack",
        "multi_operand_negate",
        "multi_operand_reciprocal",
        "stack_above_3_used",
        "out_astral_char",
        "value_over_64_bits",
        "forward_jump_taken",
        "value_over_32_bits",
        "jump_from_first_command",
        "heart_return_to_first_command",
        "heart_return_onto_itself",
    ];
}

#[derive(Clone)]
pub struct Machine {
    pub stacks: BTreeMap<usize, Vec<Rat>>,
    pub sel: usize,
    pub labels: HashMap<(u64, u8), usize>,
    pub last: Option<usize>,
    pub pc: usize,
    pub inpos: usize,
    pub out: Vec<u8>,
    pub err: Vec<u8>,
    pub steps: u64,
    pub max_bits: usize,
    pub probes: [u64; probe::N],
    /// number of values currently alive on ordinary stacks (memory guard)
    pub live: usize,
}

impl Default for Machine {
    fn default() -> Self {
        Machine::new()
    }
}

impl Machine {
    pub fn new() -> Machine {
        Machine {
            stacks: BTreeMap::new(),
            sel: 3,
            labels: HashMap::new(),
            last: None,
            pc: 0,
            inpos: 0,
            out: Vec::new(),
            err: Vec::new(),
            steps: 0,
            max_bits: 0,
            probes: [0; probe::N],
            live: 0,
        }
    }

    fn note(&mut self, v: &Rat) {
        let b = v.bits();
        if b > self.max_bits {
            self.max_bits = b;
        }
        if b > 64 {
            self.probes[probe::BIG_VALUE] += 1;
        }
        if b > 32 {
            self.probes[probe::MULTI_LIMB] += 1;
        }
        if let Rat::V { n, d } = v {
            if !d.is_one() {
                self.probes[probe::FRACTION] += 1;
            }
            if n.is_neg() {
                self.probes[probe::NEGATIVE] += 1;
            }
        }
    }

    fn write(&mut self, stream: usize, v: &Rat) -> Result<(), End> {
        let mut text = String::new();
        match v {
            Rat::NaN => {
                self.probes[probe::OUT_NAN] += 1;
                text.push_str(NAN_TEXT);
            }
            v if v.is_negative() => {
                self.probes[probe::OUT_NEG] += 1;
                text = v.neg().text();
            }
            v => {
                let f: Int = v.floor_nonneg();
                let n = match f.to_u64() {
                    Some(n) if n < (1u64 << 32) => n,
                    _ => return Err(End::Unspecified("output value >= 2^32")),
                };
                match char::from_u32(n as u32) {
                    Some(c) => {
                        self.probes[probe::OUT_CHAR] += 1;
                        if n >= 0x10000 {
                            self.probes[probe::OUT_ASTRAL] += 1;
                        }
                        text.push(c);
                    }
                    None => return Err(End::Encoding(n)),
                }
            }
        }
        if stream == 1 {
            self.out.extend_from_slice(text.as_bytes());
        } else {
            self.probes[probe::ERR_WRITE] += 1;
            self.err.extend_from_slice(text.as_bytes());
        }
        Ok(())
    }

    fn push(&mut self, i: usize, v: Rat) -> Result<(), End> {
        if i == 1 || i == 2 {
            return self.write(i, &v);
        }
        if i > 3 {
            self.probes[probe::HIGH_STACK] += 1;
        }
        let st = self.stacks.entry(i).or_default();
        if st.is_empty() && v.is_nan() {
            self.probes[probe::NAN_DROPPED] += 1;
            return Ok(());
        }
        st.push(v);
        self.live += 1;
        Ok(())
    }

    fn pop(&mut self, i: usize, stdin: &[u8]) -> Result<Rat, End> {
        if i == 1 {
            return Err(End::Exit(0));
        }
        if i == 2 {
            return Err(End::Exit(1));
        }
        if i == 0 && self.stacks.get(&0).map_or(true, |s| s.is_empty()) {
            // next line, terminator included
            let rest = &stdin[self.inpos..];
            let len = match rest.iter().position(|&b| b == b'\n') {
                Some(p) => p + 1,
                None => rest.len(),
            };
            let line = &rest[..len];
            self.inpos += len;
            if len == 0 {
                self.probes[probe::READ_EOF] += 1;
            } else {
                self.probes[probe::READ_LINE] += 1;
            }
            let s = match std::str::from_utf8(line) {
                Ok(s) => s,
                Err(_) => return Err(End::InputEncoding),
            };
            let st = self.stacks.entry(0).or_default();
            for c in s.chars().rev() {
                st.push(Rat::from_u64(c as u64));
                self.live += 1;
            }
        }
        match self.stacks.get_mut(&i).and_then(|s| s.pop()) {
            Some(v) => {
                self.live -= 1;
                Ok(v)
            }
            None => {
                self.probes[probe::EMPTY_POP] += 1;
                Ok(Rat::NaN)
            }
        }
    }

    /// Execute the command at `pc`.  `Ok(())`: the machine is at the next command
    /// (possibly past the end: check `pc >= cmds.len()`).
    pub fn step(&mut self, cmds: &[Cmd], stdin: &[u8]) -> Result<(), End> {
        let pc = self.pc;
        let c = &cmds[pc];
        let count = c.count();
        if count >= (1u64 << 31) {
            return Err(End::Unspecified("count >= 2^31"));
        }
        let s = self.sel;
        match c.kind {
            0 => {
                let v = Rat::from_u64(count);
                self.push(s, v)?;
            }
            1 | 2 => {
                let mut acc = if c.kind == 1 { Rat::int(0) } else { Rat::int(1) };
                for _ in 0..c.h {
                    let v = self.pop(s, stdin)?;
                    acc = if c.kind == 1 { acc.add(&v) } else { acc.mul(&v) };
                    self.note(&acc);
                }
                self.push(c.d, acc)?;
            }
            3 | 4 => {
                if c.h > 1 {
                    self.probes[if c.kind == 3 { probe::MULTI_OPERAND_NEG } else { probe::MULTI_OPERAND_REC }] += 1;
                }
                let mut vals = Vec::with_capacity(c.h);
                for _ in 0..c.h {
                    vals.push(self.pop(s, stdin)?);
                }
                // restore in original order: the deepest popped value goes back first
                let mut acc = if c.kind == 3 { Rat::int(0) } else { Rat::int(1) };
                for v in vals.into_iter().rev() {
                    let t = if c.kind == 3 {
                        v.neg()
                    } else {
                        if let Rat::V { n, .. } = &v {
                            if n.is_zero() {
                                self.probes[probe::DIV_ZERO] += 1;
                            }
                        }
                        v.recip()
                    };
                    self.note(&t);
                    acc = if c.kind == 3 { acc.add(&t) } else { acc.mul(&t) };
                    self.note(&acc);
                    self.push(s, t)?;
                }
                self.push(c.d, acc)?;
            }
            _ => {
                let v = self.pop(s, stdin)?;
                for _ in 0..c.h {
                    self.push(c.d, v.clone())?;
                }
                self.push(s, v)?;
                self.sel = c.d;
            }
        }
        // area, evaluated with the new selected stack
        let sel = self.sel;
        let mut a = &c.area;
        let leaf = loop {
            match a {
                RArea::Nil => break 0u8,
                RArea::Leaf(t) => break *t,
                RArea::Node(t, l, r) => {
                    if sel <= 2 {
                        self.probes[probe::AREA_POP_IO] += 1;
                    }
                    let v = self.pop(sel, stdin)?;
                    let ord = v.cmp_u64(count);
                    if count != 0 {
                        self.probes[probe::CMP_NONZERO_COUNT] += 1;
                    }
                    match &v {
                        Rat::NaN => self.probes[probe::CMP_NAN] += 1,
                        Rat::V { d, .. } if !d.is_one() => self.probes[probe::CMP_FRACTION] += 1,
                        _ => {}
                    }
                    let left = if *t == 0 { ord == Some(Ordering::Less) } else { ord == Some(Ordering::Equal) };
                    let pi = match (*t, left) {
                        (0, true) => probe::Q_LEFT,
                        (0, false) => probe::Q_RIGHT,
                        (_, true) => probe::B_LEFT,
                        (_, false) => probe::B_RIGHT,
                    };
                    self.probes[pi] += 1;
                    a = if left { l } else { r };
                }
            }
        };
        self.steps += 1;
        let mut next = pc + 1;
        if leaf == 13 {
            if let Some(l) = self.last {
                self.probes[probe::HEART_RETURN] += 1;
                if l == 0 {
                    self.probes[probe::RETURN_TO_FIRST] += 1;
                }
                if l == pc {
                    self.probes[probe::RETURN_TO_SELF] += 1;
                }
                next = l;
            }
        } else if leaf != 0 {
            match self.labels.get(&(count, leaf)) {
                Some(&t) if t != pc => {
                    self.probes[probe::JUMP] += 1;
                    if t > pc {
                        self.probes[probe::FWD_JUMP] += 1;
                    }
                    if pc == 0 {
                        self.probes[probe::JUMP_FROM_FIRST] += 1;
                    }
                    self.last = Some(pc);
                    next = t;
                }
                Some(_) => {
                    self.probes[probe::LABEL_SELF] += 1;
                }
                None => {
                    self.probes[probe::LABEL_SET] += 1;
                    self.labels.insert((count, leaf), pc);
                }
            }
        }
        self.pc = next;
        Ok(())
    }

    pub fn stack_text(&self, i: usize) -> Vec<String> {
        self.stacks.get(&i).map_or(Vec::new(), |s| s.iter().map(|v| v.text()).collect())
    }
}

/// Why a pre-flight stopped.
#[derive(Clone, Debug, PartialEq, Eq)]
pub enum Halt {
    Ended(End),
    /// the next step would exceed the magnitude cap
    Cap,
    /// step budget reached
    Budget,
    /// too many live values
    Memory,
}

pub struct Preflight {
    /// number of steps that can be executed safely by the real interpreter
    pub safe_steps: u64,
    pub halt: Halt,
    /// machine after `safe_steps` steps (if halt is Ended: including the partial effects of the ending step)
    pub m: Machine,
    /// stdout/stderr lengths after each safe step (only filled when `trace`)
    pub trace: Vec<(u32, u32)>,
}

/// Run the model: at most `budget` steps, values of at most `cap_bits` bits.
/// On `Cap`/`Memory` the returned machine has `out`/`err`/`steps` rolled back to the
/// state before the offending step (its stacks are not meaningful any more).
pub fn preflight(cmds: &[Cmd], stdin: &[u8], budget: u64, cap_bits: usize, trace: bool) -> Preflight {
    preflight_mem(cmds, stdin, budget, cap_bits, trace, 200_000)
}

/// `preflight` with an explicit bound on the number of live stack values.
pub fn preflight_mem(cmds: &[Cmd], stdin: &[u8], budget: u64, cap_bits: usize, trace: bool, max_live: usize) -> Preflight {
    let mut m = Machine::new();
    let mut tr = Vec::new();
    if cmds.is_empty() {
        return Preflight { safe_steps: 0, halt: Halt::Ended(End::End), m, trace: tr };
    }
    loop {
        if m.steps >= budget {
            return Preflight { safe_steps: m.steps, halt: Halt::Budget, m, trace: tr };
        }
        let (o, e, st) = (m.out.len(), m.err.len(), m.steps);
        let r = m.step(cmds, stdin);
        if m.max_bits > cap_bits || m.live > max_live {
            let halt = if m.max_bits > cap_bits { Halt::Cap } else { Halt::Memory };
            m.out.truncate(o);
            m.err.truncate(e);
            m.steps = st;
            return Preflight { safe_steps: st, halt, m, trace: tr };
        }
        match r {
            Ok(()) => {
                if trace {
                    tr.push((m.out.len() as u32, m.err.len() as u32));
                }
                if m.pc >= cmds.len() {
                    return Preflight { safe_steps: m.steps, halt: Halt::Ended(End::End), m, trace: tr };
                }
            }
            Err(e) => {
                let steps = m.steps;
                return Preflight { safe_steps: steps, halt: Halt::Ended(e), m, trace: tr };
            }
        }
    }
}
