//! C12 — entering a program line by line interactively equals running it whole.
//! Oracle: the whole program (commands since the last `clear`) run through the real
//! `execute::execute`, recorded at line boundaries.

use crate::gen::{self, Flavor};
use crate::json::J;
use crate::props::c01::check_parsed;
use crate::props::c11::script_bytes;
use crate::reflang::{self, probe, Cmd, Machine, RArea};
use crate::rng::Rng;
use crate::runner::{truncate, Property, RunOut, Tier, Violation};
use crate::scenario::Scenario;
use crate::sim::{self, Ending};
use crate::transcript::{excise, walk, Expect, Piece, PROMPT};
use hyeong::core::state::UnOptState;
use hyeong::core::code::UnOptCode;
use hyeong::core::{execute, parse};
use hyeong::util::error::Error;
use hyeong::util::io::ReadLine;

pub struct C12;

/// What one entered line is expected to show.
#[derive(Clone, Debug)]
enum LineKind {
    Code { out: Vec<u8>, err: Vec<u8>, end: Option<i32>, error: bool },
    Clear,
    Help,
    Blank,
    Exit,
}

struct NoInput;
struct ReadAttempt;
impl ReadLine for NoInput {
    fn read_line_(&mut self) -> Result<String, Error> {
        std::panic::resume_unwind(Box::new(ReadAttempt));
    }
}

/// Expand the script: "#k" = a line holding the next k commands (canonical spelling).
fn expand(sc: &Scenario) -> Vec<(String, Vec<Cmd>)> {
    let mut pos = 0usize;
    let mut v = Vec::new();
    for l in &sc.script {
        if let Some(k) = l.strip_prefix('#') {
            // "#k" = the next k commands separated by blanks; "#k!" = written without any separator
            let tight = k.ends_with('!');
            let k: usize = k.trim_end_matches('!').parse().unwrap_or(1);
            let end = (pos + k).min(sc.cmds.len());
            if end > pos {
                let cmds = sc.cmds[pos..end].to_vec();
                let text = if tight {
                    let mut t = String::new();
                    for c in &cmds {
                        c.source(&mut t);
                    }
                    t
                } else {
                    reflang::program_source(&cmds)
                };
                v.push((text, cmds));
                pos = end;
            }
        } else {
            v.push((l.clone(), Vec::new()));
        }
    }
    if sc.knob("noise") == 1 {
        add_noise(sc, &mut v);
    }
    v
}

/// Comment text that is no part of any command (parse.rs ignores it between commands).
const NOISE_WORDS: &[&str] = &["# 주석", "가나다", "// loop", "abc 123", "(note)", "~~", "-- 끝", "한글 comment 漢字", "0", "«»", "\t"];
const NOISE_DOTS: &[&str] = &["...", "…", ".", "⋯ ", "⋮.", ". . ."];
const NOISE_START: [char; 3] = ['혀', '하', '흐'];
const NOISE_TAIL: &[&str] = &["", "나", "루", " comment", "지만"];

/// Knob `noise`: comment text around the commands of a line, chosen so that the program is the same
/// whether the lines are parsed one by one or as one file (on a parser that treats text between
/// commands as the language describes):
/// * words without any character of the language, before or after a line's commands;
/// * filler dots at the start of a line whose predecessor (since the last `clear`) ends in a command
///   with an area part, or that is the first line: dots there belong to no command;
/// * a long-form start syllable (혀/하/흐) with no ending syllable of its class anywhere after it in
///   the whole history: such a syllable starts nothing.
fn add_noise(sc: &Scenario, v: &mut Vec<(String, Vec<Cmd>)>) {
    let key = sc.plan.key ^ 0x4E01_5E00;
    let class_of = |c: char| match c {
        '엉' => Some(0usize),
        '앙' | '앗' => Some(1),
        '읏' | '읍' | '윽' => Some(2),
        _ => None,
    };
    let mut last_end: [Option<usize>; 3] = [None; 3];
    for (i, (text, cmds)) in v.iter().enumerate() {
        if cmds.is_empty() {
            continue;
        }
        for ch in text.chars() {
            if let Some(k) = class_of(ch) {
                last_end[k] = Some(i);
            }
        }
    }
    // None = first code line since the start or the last `clear`
    let mut prev_has_area: Option<bool> = None;
    for (i, (text, cmds)) in v.iter_mut().enumerate() {
        if cmds.is_empty() {
            if text.trim() == "clear" {
                prev_has_area = None;
            }
            continue;
        }
        let h = simcore::mix(key ^ (i as u64) << 8);
        let pick = |list: &[&'static str], salt: u64| list[(simcore::mix(h ^ salt) % list.len() as u64) as usize];
        let k = ((h >> 8) % 3) as usize;
        let mut lead = String::new();
        let mut trail = String::new();
        match h % 8 {
            0 | 1 => {
                trail.push(' ');
                trail.push_str(pick(NOISE_WORDS, 1));
            }
            2 => {
                lead.push_str(pick(NOISE_WORDS, 2));
                lead.push(' ');
            }
            3 => {
                if prev_has_area != Some(false) {
                    lead.push_str(pick(NOISE_DOTS, 3));
                }
            }
            4 | 5 => {
                if last_end[k].map_or(true, |l| l <= i) {
                    trail.push(' ');
                    trail.push(NOISE_START[k]);
                    trail.push_str(pick(NOISE_TAIL, 4));
                }
            }
            6 => {
                if last_end[k].map_or(true, |l| l < i) {
                    lead.push(NOISE_START[k]);
                    lead.push_str(pick(NOISE_TAIL, 5));
                    lead.push(' ');
                }
            }
            _ => {}
        }
        prev_has_area = Some(cmds.last().map_or(false, |c| c.area != RArea::Nil));
        if !lead.is_empty() || !trail.is_empty() {
            *text = format!("{}{}{}", lead, text, trail);
        }
    }
}

/// What the parser made of a text, as far as execution is concerned.
fn sig(p: &[hyeong::core::code::UnOptCode]) -> Vec<(u8, usize, usize, String)> {
    use hyeong::core::code::Code;
    p.iter().map(|c| (c.get_type(), c.get_hangul_count(), c.get_dot_count(), format!("{:?}", c.get_area()))).collect()
}

impl C12 {
    pub fn run_mode(&self, sc: &Scenario, real: bool) -> RunOut {
        let mut out = RunOut::default();
        let mut lines = expand(sc);
        // the whole program as `run` would parse it: per segment (since the last `clear`) the code lines joined
        // by line breaks, parsed at once; and what the interpreter sees: every line parsed on its own
        let line_parse: Vec<Vec<UnOptCode>> = lines.iter().map(|(text, cmds)| if cmds.is_empty() { Vec::new() } else { parse::parse(text.clone()) }).collect();
        let mut whole: Vec<Vec<UnOptCode>> = line_parse.clone();
        let mut parses_agree = true;
        {
            let mut segs: Vec<Vec<usize>> = vec![Vec::new()];
            for (i, (text, cmds)) in lines.iter().enumerate() {
                if cmds.is_empty() {
                    if text.trim() == "clear" {
                        segs.push(Vec::new());
                    }
                } else {
                    segs.last_mut().unwrap().push(i);
                }
            }
            for seg in segs.iter().filter(|s| !s.is_empty()) {
                let text = seg.iter().map(|&i| lines[i].0.as_str()).collect::<Vec<_>>().join("\n");
                let w = parse::parse(text);
                let by_lines: Vec<_> = seg.iter().flat_map(|&i| sig(&line_parse[i])).collect();
                if sig(&w) == by_lines {
                    continue;
                }
                // the two parses differ: attribute the whole parse's commands to lines by their reported line number
                parses_agree = false;
                for &i in seg {
                    whole[i].clear();
                }
                let mut last = 0usize;
                for c in w {
                    let ln = c.get_location().0;
                    if ln < 1 || ln > seg.len() || ln < last {
                        out.skipped = Some("whole and line-wise parse differ and the commands cannot be attributed to lines");
                        return out;
                    }
                    last = ln;
                    whole[seg[ln - 1]].push(c);
                }
            }
        }
        if parses_agree {
            // pre-condition with the real parser: line-wise parse == the command lists
            for (i, (_, cmds)) in lines.iter().enumerate() {
                if !cmds.is_empty() {
                    if let Err(v) = check_parsed(cmds, &line_parse[i]) {
                        if sc.knob("noise") == 1 && check_parsed(cmds, &parse::parse(reflang::program_source(cmds))).is_ok() {
                            // the parser reads the comment text differently from what the generator assumed, but in
                            // the same way line by line and as a whole: the meaning of comment text is not this property
                            out.skipped = Some("comment text changes the parse, the same way whole and line by line");
                            return out;
                        }
                        out.violation = Some(v);
                        return out;
                    }
                }
            }
        } else {
            out.add("whole_and_linewise_parse_differ", 1);
        }
        // reference pre-flight, segment by segment: input-free, small values, terminating lines
        let mut m = Machine::new();
        let mut seg: Vec<Cmd> = Vec::new();
        let mut cut = lines.len();
        let mut steps_total = 0u64;
        let mut jumps_back_to_earlier_line = false;
        let mut clear_between = false;
        let mut code_lines = 0usize;
        let mut model_exit = false;
        let mut model_encoding = false;
        'pf: for (li, (text, cmds)) in lines.iter().enumerate() {
            if cmds.is_empty() {
                if text.trim() == "clear" {
                    if code_lines > 0 {
                        clear_between = true;
                    }
                    m = Machine::new();
                    seg.clear();
                }
                if text.trim() == "exit" {
                    cut = li + 1;
                    break;
                }
                continue;
            }
            let line_start = seg.len();
            for c in cmds {
                seg.push(c.clone());
                while m.pc < seg.len() {
                    if steps_total >= sc.budget {
                        cut = li;
                        break 'pf;
                    }
                    let before_pc = m.pc;
                    let r = m.step(&seg, &[]);
                    steps_total += 1;
                    if m.max_bits > sc.cap_bits || m.live > 50_000 || m.probes[probe::READ_LINE] + m.probes[probe::READ_EOF] > 0 {
                        cut = li;
                        break 'pf;
                    }
                    match r {
                        Ok(()) => {
                            if m.pc < line_start && m.pc < before_pc {
                                jumps_back_to_earlier_line = true;
                            }
                        }
                        Err(reflang::End::Exit(_)) => {
                            model_exit = true;
                            cut = li + 1;
                            code_lines += 1;
                            break 'pf;
                        }
                        Err(reflang::End::Encoding(_)) => {
                            model_encoding = true;
                            cut = li + 1;
                            code_lines += 1;
                            break 'pf;
                        }
                        Err(_) => {
                            cut = li;
                            break 'pf;
                        }
                    }
                }
            }
            code_lines += 1;
        }
        if cut < lines.len() {
            out.add("script_cut_at_window", 1);
        }
        lines.truncate(cut);
        // oracle: the whole program through the real execute::execute, recorded per line
        let mut kinds: Vec<LineKind> = Vec::new();
        let mut oracle_problem = false;
        let mut oracle_plan = simcore::Plan::default();
        if !parses_agree {
            // the reference pre-flight knows the intended program only: bound the run by the step clock
            oracle_plan.tick_budget = steps_total + 300;
        }
        let (_e, _, _w) = sim::run_process(oracle_plan, Vec::new(), || {
            let mut state = Some(UnOptState::new());
            for (li, (text, cmds)) in lines.iter().enumerate() {
                if cmds.is_empty() {
                    kinds.push(match text.trim() {
                        "clear" => {
                            state = Some(UnOptState::new());
                            LineKind::Clear
                        }
                        "help" => LineKind::Help,
                        "exit" => LineKind::Exit,
                        _ => LineKind::Blank,
                    });
                    continue;
                }
                // the commands `run` finds on this line of the whole program
                let parsed = &whole[li];
                let mut o: Vec<u8> = Vec::new();
                let mut e: Vec<u8> = Vec::new();
                let mut end = None;
                let mut error = false;
                for c in parsed.iter() {
                    let st = state.take().unwrap();
                    let r = std::panic::catch_unwind(std::panic::AssertUnwindSafe(|| execute::execute(&mut NoInput, &mut o, &mut e, st, c)));
                    match r {
                        Ok(Ok(ns)) => state = Some(ns),
                        Ok(Err(_)) => {
                            error = true;
                            break;
                        }
                        Err(p) => {
                            if let Some(x) = p.downcast_ref::<simcore::SimExit>() {
                                end = Some(x.0);
                            } else {
                                oracle_problem = true;
                            }
                            break;
                        }
                    }
                }
                kinds.push(LineKind::Code { out: o, err: e, end, error });
                if end.is_some() || error || oracle_problem {
                    break;
                }
            }
        });
        if oracle_problem {
            out.skipped = Some("whole-program run not usable (read attempt or panic): C01's business");
            return out;
        }
        lines.truncate(kinds.len());
        let mut no_final_newline = sc.no_final_newline;
        if no_final_newline && lines.last().map_or(false, |l| l.0.is_empty()) {
            // an empty last line without terminator is no line at all: the line before it ends with its terminator
            lines.pop();
            kinds.pop();
            no_final_newline = false;
        }
        let script: Vec<String> = lines.iter().map(|l| l.0.clone()).collect();
        // the real interactive interpreter
        let mut plan = sc.plan.clone();
        plan.tick_budget = steps_total + 300;
        plan.sigint_at.retain(|&x| (x as usize) <= script.len());
        let stdin = script_bytes(&script, no_final_newline, sc.knob("crlf") == 1);
        let (ending, t_out, t_err, sigint): (Ending, Vec<u8>, Vec<u8>, Vec<(usize, usize)>) = if real {
            let bin = match crate::real::binary() {
                Ok(b) => b,
                Err(e) => {
                    println!("HARNESS-ERROR: {}", e);
                    std::process::exit(2);
                }
            };
            let args: Vec<String> = vec!["--color".into(), "never".into()];
            let chunks = crate::real::chunks_from_plan(&plan, 64);
            let r = crate::real::run(&bin, &args, None, &stdin, &chunks, std::time::Duration::from_secs(60)).expect("spawn");
            let e = if r.timed_out || r.signal.is_some() || r.status == Some(101) {
                Ending::Panic(format!("{} ; stderr {:?}", r.describe(), truncate(&String::from_utf8_lossy(&r.stderr), 300)))
            } else {
                Ending::Exit { site: "real", code: r.status.unwrap_or(-1) }
            };
            (e, r.stdout, r.stderr, Vec::new())
        } else {
            let (ending, _, world) = sim::run_process(plan, stdin, || {
                use hyeong::util::option::HyeongOption;
                use termcolor::{ColorChoice, StandardStream};
                let mut stdout = StandardStream::stdout(ColorChoice::Never);
                let mut stderr = StandardStream::stderr(ColorChoice::Never);
                let opt = HyeongOption::new().color(ColorChoice::Never);
                let r = hyeong::app::interpreter::run(&mut stdout, &opt);
                hyeong::util::io::handle(&mut stderr, r)
            });
            out.absorb_world(&world);
            (ending, world.out.clone(), world.err.clone(), world.sigint_ranges.clone())
        };
        out.add("interactive_sessions", 1);
        out.add("code_lines_entered", code_lines as u64);
        out.add("jump_to_earlier_line", jumps_back_to_earlier_line as u64);
        out.add("clear_between_code_lines", clear_between as u64);
        out.add("program_requested_exit", model_exit as u64);
        out.add("model_encoding_error_program", model_encoding as u64);
        out.nontrivial = code_lines >= 2 && (jumps_back_to_earlier_line || clear_between || model_exit);
        out.shape = (code_lines as u64) << 16 ^ (steps_total.min(255)) << 4 ^ (jumps_back_to_earlier_line as u64) << 2 ^ (clear_between as u64) << 1 ^ model_exit as u64;
        if let Ending::Panic(msg) = &ending {
            out.violation = Some(Violation::new("crash", "no crash", format!("{} ; lines {:?}", msg, script)));
            return out;
        }
        if !parses_agree && ending == Ending::Stop {
            out.skipped = Some("whole and line-wise parse differ and the session ran into the step clock");
            return out;
        }
        // walk the transcript
        let t = excise(&t_out, &sigint);
        let mut pieces: Vec<Expect> = Vec::new();
        let ex = |p: Piece, c: &'static str, n: String| Expect { piece: p, clause: c, note: n };
        // banner: whole lines of free wording, up to the first prompt
        let mut pos0 = 0usize;
        while !t[pos0..].starts_with(PROMPT) {
            match t[pos0..].iter().position(|&b| b == b'\n') {
                Some(e) => pos0 += e + 1,
                None => {
                    out.violation = Some(Violation::new("banner", "banner lines, then a prompt", truncate(&String::from_utf8_lossy(&t), 200)));
                    return out;
                }
            }
        }
        let mut want = Ending::Exit { site: "interpreter_eof", code: 0 };
        let mut total_out: Vec<u8> = Vec::new();
        let mut total_err: Vec<u8> = Vec::new();
        let mut stop_matching = false;
        for (i, k) in kinds.iter().enumerate() {
            let note = format!("line {} {:?}", i, truncate(&script[i], 80));
            pieces.push(ex(Piece::Exact(PROMPT.to_vec()), "prompt", format!("before {}", note)));
            match k {
                LineKind::Blank | LineKind::Clear => {}
                LineKind::Help => pieces.push(ex(Piece::BlockUntilPrompt, "help", note)),
                LineKind::Exit => {
                    want = Ending::Exit { site: "interpreter_exit", code: 0 };
                }
                LineKind::Code { out: o, err: e, end, error } => {
                    if *error {
                        want = Ending::Exit { site: "print_error", code: 1 };
                        stop_matching = true;
                        break;
                    }
                    total_out.extend_from_slice(o);
                    total_err.extend_from_slice(e);
                    pieces.push(ex(
                        Piece::Output { out: o.clone(), err: e.clone() },
                        "line-output",
                        format!("{}: output of this line's commands, each character once", note),
                    ));
                    if let Some(c) = end {
                        want = Ending::Exit { site: "pop_stack_wrap", code: *c };
                    }
                }
            }
        }
        let ended_by_line = !matches!(want, Ending::Exit { site: "interpreter_eof", .. });
        if !ended_by_line {
            pieces.push(ex(Piece::Exact(PROMPT.to_vec()), "prompt", "before end of input".into()));
        }
        match walk(&t, pos0, &pieces) {
            Err((c, e, o)) => {
                out.violation = Some(Violation::new(&c, e, o));
                return out;
            }
            Ok((pos, _)) => {
                if !stop_matching && crate::transcript::skip_log_lines(&t, pos) != t.len() {
                    out.violation = Some(Violation::new(
                        "extra-output",
                        "transcript ends after the last expected piece",
                        format!("{:?}", truncate(&String::from_utf8_lossy(&t[pos..]), 300)),
                    ));
                    return out;
                }
            }
        }
        let status_of = |e: &Ending| match e {
            Ending::Return => 0,
            Ending::Exit { code, .. } => *code,
            _ => -1,
        };
        let end_ok = match (&want, &ending) {
            (w, Ending::Exit { site: "real", code }) => status_of(w) == *code,
            (Ending::Exit { code: a, site: "interpreter_exit" | "interpreter_eof" }, Ending::Exit { code: b, site: "interpreter_exit" | "interpreter_eof" }) => a == b,
            (a, b) => a == b,
        };
        if !end_ok {
            out.violation = Some(Violation::new("ending", want.describe(), ending.describe()));
            return out;
        }
        if stop_matching {
            if !String::from_utf8_lossy(&t_err).contains("[error] ") {
                out.violation = Some(Violation::new("ending", "diagnostic on stderr", truncate(&String::from_utf8_lossy(&t_err), 200)));
            }
        } else if !t_err.is_empty() {
            out.violation = Some(Violation::new("stderr", "nothing on the process's stderr", truncate(&String::from_utf8_lossy(&t_err), 300)));
        }
        out
    }
}

impl Property for C12 {
    fn id(&self) -> &'static str {
        "C12"
    }
    fn level(&self) -> &'static str {
        "exploration"
    }
    fn rule(&self) -> &'static str {
        "scenario = (input-free command list, a composition of it into entered lines with clear/help/blank lines in between, fault plan with chunked reads/EINTR/short writes/SIGINT at prompts/EOF); the real app::interpreter::run is driven in SimWorld; \
         per line and in total the transcript must show exactly what the same commands produce when the whole program is run through the real execute::execute; \
         non-trivial = at least 2 code lines and (a jump whose target lies on an earlier line, or a clear between two code lines, or a program-requested exit); distinct = distinct scenario content hash"
    }
    fn runs(&self, tier: Tier) -> u64 {
        match tier {
            Tier::Quick => 350_000,
            Tier::Thorough => 5_000_000,
        }
    }
    fn generate(&self, rng: &mut Rng, tier: Tier) -> Scenario {
        let mut sc = Scenario::new("C12");
        sc.subcommand = "interpreter".into();
        let sw = gen::swarm(rng, Flavor::InputFree);
        let max_cmds = if tier == Tier::Thorough && rng.chance(20) { 24 } else { 14 };
        sc.cmds = gen::gen_program(rng, &sw, Flavor::InputFree, max_cmds);
        if rng.chance(30) {
            gen::optimizer_hazard(rng, &mut sc.cmds);
            for c in sc.cmds.iter_mut() {
                if c.kind == 5 && c.d == 0 {
                    c.d = 3;
                }
            }
        }
        if rng.chance(6) {
            sc.cmds = gen::goto_machine(rng, true);
        }
        // targeted family: the first program jumps (pending jump source, registered labels), then
        // `clear`, then a longer program that evaluates ♡ / the same label before jumping itself
        let mut stale_family = false;
        if rng.chance(12) {
            stale_family = true;
            sc.cmds.clear();
            for _ in 0..rng.usize(0, 2) {
                sc.cmds.push(Cmd::new(0, rng.usize(1, 3), rng.usize(1, 60), RArea::Nil));
            }
            let rounds = rng.usize(2, 3);
            gen::small_loop_core(rng, &mut sc.cmds, rounds);
            let heart = sc.cmds.iter().rev().find_map(|c| if let RArea::Leaf(h) = c.area { Some(h) } else { None }).unwrap_or(2);
            sc.set_knob("second_program_at", sc.cmds.len() as i64);
            let first_len = sc.cmds.len();
            let n2 = first_len + rng.usize(1, 6);
            let special = rng.usize(first_len.saturating_sub(2), n2 - 1);
            for i in 0..n2 {
                if i == special {
                    let area = if rng.chance(60) { RArea::Leaf(13) } else { RArea::Leaf(heart) };
                    sc.cmds.push(Cmd::new(0, 1, 1, area));
                } else if rng.chance(30) {
                    sc.cmds.push(Cmd::new(1, 1, rng.usize(1, 2), RArea::Nil));
                } else {
                    sc.cmds.push(Cmd::new(0, rng.usize(1, 2), rng.usize(33, 90), RArea::Nil));
                }
            }
        }
        // a second program after a clear re-uses labels of the first on purpose
        if !stale_family && rng.chance(25) {
            let extra = gen::gen_program(rng, &sw, Flavor::InputFree, 6);
            sc.set_knob("second_program_at", sc.cmds.len() as i64);
            sc.cmds.extend(extra);
        }
        if rng.chance(8) {
            gen::magic_output(rng, &mut sc.cmds);
        }
        if rng.chance(2) {
            // one line that writes a lot: thousands of copies of one value to an output stream
            let pos = rng.usize(0, sc.cmds.len());
            sc.cmds.insert(pos, Cmd::new(5, rng.usize(4200, 5200), rng.usize(1, 2), RArea::Nil));
            sc.cmds.insert(pos + 1, Cmd::new(5, 1, 3, RArea::Nil));
        }
        let n = sc.cmds.len();
        let mut left = n;
        let second = sc.knob("second_program_at") as usize;
        let mut pos = 0usize;
        while left > 0 {
            if rng.chance(6) {
                sc.script.push((*rng.pick(&["", " ", "help"])).to_string());
            }
            if second > 0 && pos == second {
                sc.script.push("clear".to_string());
            } else if rng.chance(5) {
                sc.script.push("clear".to_string());
            }
            let mut k = match rng.below(100) {
                0..=49 => 1,
                50..=79 => 2,
                _ => rng.usize(3, 6),
            }
            .min(left);
            if second > pos && pos + k > second {
                k = second - pos;
            }
            sc.script.push(if rng.chance(10) { format!("#{}!", k) } else { format!("#{}", k) });
            left -= k;
            pos += k;
        }
        if rng.chance(4) {
            // the idiom the help text advertises, entered as a line of its own: it is a program, not a keyword
            sc.cmds.push(Cmd::new(5, 1, 1, RArea::Nil));
            sc.cmds.push(Cmd::new(1, 2, 3, RArea::Nil));
            sc.script.push("#2!".to_string());
        }
        if rng.chance(10) {
            sc.script.push("exit".to_string());
        }
        sc.no_final_newline = rng.chance(20);
        sc.set_knob("crlf", rng.chance(10) as i64);
        let ff = rng.chance(40);
        sc.plan = gen::gen_plan(rng, ff);
        if !ff && rng.chance(40) {
            for _ in 0..rng.usize(1, 3) {
                sc.plan.sigint_at.push(rng.usize(0, sc.script.len()) as u32);
            }
            sc.plan.sigint_at.sort_unstable();
            sc.plan.sigint_at.dedup();
        }
        sc.budget = 800;
        sc.cap_bits = 96;
        // comment text around the commands (drawn last: everything above is as it was without it)
        sc.set_knob("noise", rng.chance(25) as i64);
        sc
    }
    fn repair(&self, sc: &mut Scenario) -> bool {
        // keep "#k" lines within the command list after shrinking
        let total: usize = sc.script.iter().filter_map(|l| l.strip_prefix('#').and_then(|k| k.trim_end_matches('!').parse::<usize>().ok())).sum();
        if total < sc.cmds.len() {
            sc.cmds.truncate(total);
        }
        true
    }
    fn run(&self, sc: &Scenario) -> RunOut {
        self.run_mode(sc, false)
    }
    fn post(&self, tier: Tier, seed: u64, stats: &mut crate::runner::Stats) -> Option<(Scenario, Violation)> {
        let n = match tier {
            Tier::Quick => 300,
            Tier::Thorough => 20_000,
        };
        let (spawned, bad) = crate::runner::par_find(n, |i| {
            let sc = crate::runner::make_scenario(self, seed, i, tier);
            let out = self.run_mode(&sc, true);
            match out.violation {
                Some(mut v) => {
                    v.world = "real";
                    v.clause = format!("real-{}", v.clause);
                    (1, Some((sc, v)))
                }
                None => (1, None),
            }
        });
        stats.extra.push(("realworld_spawns".into(), J::Int(spawned as i64)));
        stats.extra.push(("realworld_note".into(), J::str("release binary `hyeong --color never` (interactive interpreter) with the lines on a real pipe in planned write sizes, same transcript walk and exit status; no SIGINT in RealWorld")));
        bad
    }
    fn replay_real(&self, sc: &Scenario) -> Option<Violation> {
        self.run_mode(sc, true).violation.map(|mut v| {
            v.world = "real";
            v.clause = format!("real-{}", v.clause);
            v
        })
    }
    fn components(&self) -> J {
        J::obj()
            .set("real", J::str("app::interpreter::run (persistent state across lines, per-line capture/flush, clear/help/exit), parse::parse per line, execute::execute, UnOptState, io::read_line_from via the stdin hook, io::handle"))
            .set("stubbed", J::str("termcolor sinks, ctrlc (synchronous SIGINT fault), stdin descriptor, process::exit (hook)"))
            .set("oracle", J::str("the same commands run as one program through the real execute::execute in a fresh state, recorded at line boundaries"))
    }
    fn assumptions(&self) -> Vec<String> {
        vec![
            "lines are canonical spellings of whole commands, a quarter of the histories with comment text around them (words, filler dots, dangling start syllables) placed where it belongs to no command; the real parser is checked to return the same commands per line (counted when it does not); the oracle runs what the real parser finds in the whole text".into(),
            "lines that would not terminate within the step budget, read input or leave the value cap are cut from the history by the reference pre-flight".into(),
        ]
    }
}
