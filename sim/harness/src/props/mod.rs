pub mod c01;
