pub mod c01;
pub mod c02;
pub mod c10;
pub mod c11;
pub mod c12;
pub mod c13;
pub mod c03;
pub mod c14;
