//! C02 — optimisation levels 1 and 2 never change what a program does.
//! Oracle: the level-0 observation of the same tree on the same scenario.

use crate::gen::{self, Flavor};
use crate::json::J;
use crate::props::c01::{app_run, parse_checked, AppRun};
use crate::reflang::{self, probe, End, Halt};
use crate::rng::Rng;
use crate::runner::{truncate, Property, RunOut, Tier, Violation};
use crate::scenario::Scenario;
use crate::sim::Ending;

pub struct C02;

fn lossy(b: &[u8]) -> String {
    truncate(&String::from_utf8_lossy(b), 400)
}

/// Split a trailing diagnostic block (lines carrying the [error]/[note] markers).
pub fn strip_diag(err: &[u8]) -> Option<(Vec<u8>, String)> {
    let s = String::from_utf8_lossy(err).into_owned();
    let idx = s.rfind("[error] ")?;
    let tail = &s[idx..];
    if !tail.ends_with('\n') {
        return None;
    }
    let mut it = tail.lines();
    if !it.next()?.starts_with("[error] ") {
        return None;
    }
    for l in it {
        if !l.starts_with("[note] ") {
            return None;
        }
    }
    Some((s.as_bytes()[..idx].to_vec(), tail.to_string()))
}

fn prefix_compatible(a: &[u8], b: &[u8]) -> bool {
    a.starts_with(b) || b.starts_with(a)
}

pub fn total_budget(sc: &Scenario) -> Option<(u64, Halt, [u64; probe::N])> {
    let p = reflang::preflight(&sc.cmds, &sc.stdin, sc.budget, sc.cap_bits, false);
    let n = sc.cmds.len() as u64;
    let t = match &p.halt {
        Halt::Ended(End::Unspecified(_)) | Halt::Cap | Halt::Budget | Halt::Memory => {
            if p.safe_steps == 0 {
                return None;
            }
            p.safe_steps
        }
        Halt::Ended(_) => p.safe_steps + 2002 * n + 50,
    };
    Some((t, p.halt, p.m.probes))
}

pub fn compare_levels(r0: &AppRun, r: &AppRun, level: u8) -> Option<Violation> {
    let tag = |c: &str| format!("O{}-{}", level, c);
    if let Ending::Panic(m) = &r.ending {
        return Some(Violation::new(&tag("panic"), "no panic", m.clone()));
    }
    match &r0.ending {
        Ending::Panic(_) => None,
        Ending::Return | Ending::Exit { site: "pop_stack_wrap", .. } => {
            if r.out != r0.out {
                return Some(Violation::new(&tag("stdout"), lossy(&r0.out), lossy(&r.out)));
            }
            if r.err != r0.err {
                return Some(Violation::new(&tag("stderr"), lossy(&r0.err), lossy(&r.err)));
            }
            if r.ending != r0.ending {
                return Some(Violation::new(&tag("ending"), r0.ending.describe(), r.ending.describe()));
            }
            None
        }
        Ending::Exit { .. } => {
            // level 0 stopped with a diagnostic: same kind of ending, earlier text may be withheld
            let ok_end = matches!(r.ending, Ending::Exit { code: 1, site } if site != "pop_stack_wrap");
            let d0 = strip_diag(&r0.err);
            let d = strip_diag(&r.err);
            let ok = ok_end
                && r0.out.starts_with(&r.out)
                && match (&d0, &d) {
                    (Some((b0, _)), Some((b, _))) => b0.starts_with(b),
                    _ => false,
                };
            if !ok {
                return Some(Violation::new(
                    &tag("error-ending"),
                    format!("{} ; stdout prefix of {:?} ; stderr = prefix of program text + diagnostic {:?}", r0.ending.describe(), lossy(&r0.out), lossy(&r0.err)),
                    format!("{} ; stdout {:?} ; stderr {:?}", r.ending.describe(), lossy(&r.out), lossy(&r.err)),
                ));
            }
            None
        }
        Ending::Stop => {
            if level == 1 {
                if r.ending != Ending::Stop || r.out != r0.out || r.err != r0.err {
                    return Some(Violation::new(
                        &tag("bounded-run"),
                        format!("stopped at the step bound with stdout {:?} stderr {:?}", lossy(&r0.out), lossy(&r0.err)),
                        format!("{} with stdout {:?} stderr {:?}", r.ending.describe(), lossy(&r.out), lossy(&r.err)),
                    ));
                }
            } else if r.ending != Ending::Stop || !prefix_compatible(&r0.out, &r.out) || !prefix_compatible(&r0.err, &r.err) {
                return Some(Violation::new(
                    &tag("bounded-run"),
                    format!("still running; outputs prefix-compatible with stdout {:?} stderr {:?}", lossy(&r0.out), lossy(&r0.err)),
                    format!("{} with stdout {:?} stderr {:?}", r.ending.describe(), lossy(&r.out), lossy(&r.err)),
                ));
            }
            None
        }
    }
}

impl C02 {
    /// -O1 and -O2 of the release binary against its own -O0 run
    pub fn real_case(&self, sc: &Scenario) -> Option<Violation> {
        use crate::props::c01::{real_run, split_header};
        let r0 = real_run(sc, 0, "c02real");
        if r0.timed_out || r0.signal.is_some() || r0.status == Some(101) {
            return None; // not this property's verdict
        }
        let (_, out0) = split_header(&r0.stdout, 2);
        for level in 1u8..=2 {
            let r = real_run(sc, level, "c02real");
            let (_, out) = split_header(&r.stdout, 3);
            let ok = if r0.status == Some(1) && strip_diag(&r0.stderr).is_some() {
                // diagnosed ending at -O0: same kind, earlier text may be withheld
                r.status == Some(1) && out0.starts_with(&out) && strip_diag(&r.stderr).is_some()
            } else {
                r.status == r0.status && !r.timed_out && out == out0 && r.stderr == r0.stderr
            };
            if !ok {
                let mut v = Violation::new(
                    &format!("real-O{}-differs", level),
                    format!("{} ; stdout {:?} ; stderr {:?}", r0.describe(), lossy(&out0), lossy(&r0.stderr)),
                    format!("{} ; stdout {:?} ; stderr {:?}", r.describe(), lossy(&out), lossy(&r.stderr)),
                );
                v.world = "real";
                return Some(v);
            }
        }
        None
    }
}

impl Property for C02 {
    fn id(&self) -> &'static str {
        "C02"
    }
    fn level(&self) -> &'static str {
        "exploration"
    }
    fn rule(&self) -> &'static str {
        "scenario = (command list biased to optimiser hazards, stdin text, per-level fault plan); run -O0, -O1, -O2 of the same tree in SimWorld under one total step budget; \
         non-trivial = the optimiser changed something (a stack above 3 is renumbered, or level 2 pre-executed a non-empty prefix) and the level-0 run wrote output or requested exit; \
         distinct = distinct scenario content hash"
    }
    fn runs(&self, tier: Tier) -> u64 {
        match tier {
            Tier::Quick => 90_000,
            Tier::Thorough => 1_200_000,
        }
    }
    fn generate(&self, rng: &mut Rng, tier: Tier) -> Scenario {
        let mut sc = Scenario::new("C02");
        let sw = gen::swarm(rng, Flavor::Optimizer);
        let max_cmds = if tier == Tier::Thorough && rng.chance(25) { 30 } else { 14 };
        sc.cmds = gen::gen_program(rng, &sw, Flavor::Optimizer, max_cmds);
        let hz = rng.weighted(&[25, 45, 22, 8]);
        for _ in 0..hz {
            gen::optimizer_hazard(rng, &mut sc.cmds);
        }
        if rng.chance(10) {
            gen::arith_template(rng, &mut sc.cmds);
            sc.set_knob("arith", 1);
        }
        if rng.chance(10) {
            sc.cmds = gen::goto_machine(rng, false);
        }
        sc.stdin = gen::gen_stdin(rng, 40);
        let ff = rng.chance(40);
        sc.plan = gen::gen_plan(rng, ff);
        sc.budget = match tier {
            Tier::Quick => *rng.pick(&[200u64, 600, 2500]),
            Tier::Thorough => *rng.pick(&[200u64, 600, 2500, 6000]),
        };
        sc.cap_bits = if rng.chance(25) { 192 } else { 96 };
        // scale: many completed loops (aggregate jump counts), thousands of commands (aggregate program size)
        match rng.below(1000) {
            0..=3 => {
                sc.cmds = gen::many_loops(rng);
                sc.budget = 16_000;
                sc.set_knob("scale", 1);
            }
            4 => {
                sc.cmds = gen::long_program(rng);
                sc.budget = 4_000;
                sc.set_knob("scale", 2);
            }
            _ => {}
        }
        if rng.chance(20) {
            sc.set_knob("layout", 1);
        }
        sc
    }
    fn run(&self, sc: &Scenario) -> RunOut {
        let mut out = RunOut::default();
        if let Err(v) = parse_checked(sc) {
            out.violation = Some(v);
            return out;
        }
        let (t, halt, probes) = match total_budget(sc) {
            Some(x) => x,
            None => {
                out.skipped = Some("nothing safely executable");
                return out;
            }
        };
        let mut s0 = sc.clone();
        let r0 = app_run(&s0, 0, t, 2);
        out.absorb_world(&r0.world);
        s0.plan.key ^= 0x1111;
        let r1 = app_run(&s0, 1, t, 3);
        out.absorb_world(&r1.world);
        s0.plan.key ^= 0x3333;
        let r2 = app_run(&s0, 2, t, 3);
        out.absorb_world(&r2.world);
        for (i, n) in probe::NAMES.iter().enumerate() {
            out.add(n, probes[i]);
        }
        let renumbered = sc.cmds.iter().any(|c| c.kind != 0 && c.d > 3);
        let pre = r2.world.ticks_opt > 0 && r2.world.ticks_exec < r0.world.ticks_exec;
        out.add("stack_renumbered", renumbered as u64);
        out.add("prefix_pre_executed", pre as u64);
        out.add("level2_speculation_ticks", r2.world.ticks_opt);
        let spec_abandoned_after_output = pre && r2.world.ticks_exec > 0 && !r0.out.is_empty();
        out.add("speculation_abandoned_with_output_pending", spec_abandoned_after_output as u64);
        out.add("level0_over_100_jumps", (probes[probe::JUMP] + probes[probe::HEART_RETURN] > 100) as u64);
        match &halt {
            Halt::Ended(End::End) => out.add("end_normal", 1),
            Halt::Ended(End::Exit(_)) => out.add("end_program_exit", 1),
            Halt::Ended(End::Encoding(_)) => out.add("end_encoding_error", 1),
            _ => out.add("end_bounded", 1),
        }
        let wrote = !r0.out.is_empty() || !r0.err.is_empty() || matches!(r0.ending, Ending::Exit { .. });
        out.nontrivial = (renumbered || pre) && wrote;
        out.shape = crate::props::c01::shape_of(&probes, &None) ^ ((renumbered as u64) << 1 | pre as u64);
        if let Ending::Panic(_) = r0.ending {
            out.skipped = Some("level-0 run panicked (not this property's verdict)");
        }
        out.violation = compare_levels(&r0, &r1, 1).or_else(|| compare_levels(&r0, &r2, 2));
        out
    }
    fn post(&self, tier: Tier, seed: u64, stats: &mut crate::runner::Stats) -> Option<(Scenario, Violation)> {
        // RealWorld slice: -O1 and -O2 of the release binary against its own -O0 run
        let n = match tier {
            Tier::Quick => 250,
            Tier::Thorough => 15_000,
        };
        let (spawned, bad) = crate::runner::par_find(n, |i| {
            let sc = crate::runner::make_scenario(self, seed, i, tier);
            if parse_checked(&sc).is_err() {
                return (0, None);
            }
            // only runs the model shows to terminate: a real process has no step clock
            match total_budget(&sc) {
                Some((_, Halt::Ended(End::End), _)) | Some((_, Halt::Ended(End::Exit(_)), _)) | Some((_, Halt::Ended(End::Encoding(_)), _)) => {}
                _ => return (0, None),
            }
            match self.real_case(&sc) {
                Some(v) => (3, Some((sc, v))),
                None => (3, None),
            }
        });
        if bad.is_some() {
            return bad;
        }
        stats.extra.push(("realworld_spawns".into(), J::Int(spawned as i64)));
        stats.extra.push(("realworld_note".into(), J::str("release binary at -O0/-O1/-O2 on terminating scenarios, real pipes; a program whose -O0 run ends with exit status 1 and a diagnostic is compared by kind of ending")));
        None
    }
    fn replay_real(&self, sc: &Scenario) -> Option<Violation> {
        self.real_case(sc)
    }
    fn components(&self) -> J {
        J::obj()
            .set("real", J::str("app::run::run at -O0/-O1/-O2 (parse, optimize::optimize incl. opt_execute, execute::execute on OptState/UnOptState), io::handle, number, std BufReader/write_all"))
            .set("stubbed", J::str("termcolor sinks, stdin descriptor (SimPipe), process::exit (hook); main.rs/clap only in the RealWorld slice"))
            .set("oracle", J::str("the -O0 observation of the same tree; reference model only bounds the run (step budget, value cap)"))
    }
    fn assumptions(&self) -> Vec<String> {
        vec![
            "one total step budget (speculative + run-time steps) bounds all three runs; bounded runs are compared for prefix compatibility as the property states".into(),
            "values capped at 96/192 bits by the reference pre-flight".into(),
        ]
    }
}
