//! C13 — the command-line tool ends in a defined way on any file and any input.
//! Faults are the workload: every storage and stdin fault class is applied to every
//! generated base scenario (fault_enumeration); positions within a class are sampled.

use crate::gen::{self, Flavor};
use crate::json::J;
use crate::real;
use crate::reflang::{self, Cmd, End, Halt, RArea};
use crate::rng::Rng;
use crate::runner::{make_scenario, truncate, Property, RunOut, Stats, Tier, Violation};
use crate::scenario::Scenario;
use crate::sim::{self, Ending};
use hyeong::core::area::Area;
use hyeong::core::code::{Code, UnOptCode};
use hyeong::core::parse;
use simcore::mix;
use std::time::Duration;

pub struct C13;

pub const FILE_CLASSES: [&str; 17] = [
    "none",
    "missing",
    "directory",
    "no_ext",
    "wrong_ext",
    "empty",
    "bitflip",
    "cut_inside_char",
    "lone_continuation",
    "noise_utf8",
    "noise_bytes",
    "deep_area",
    "non_utf8_name",
    "bom_prefixed",
    "crlf_lines",
    "utf16le",
    "utf16be",
];
pub const STDIN_CLASSES: [&str; 5] = ["flip", "cut", "insert_ff", "bytes", "empty"];

fn conv_area(a: &Area) -> RArea {
    match a {
        Area::Nil => RArea::Nil,
        Area::Val { type_, left, right } => {
            if *type_ <= 1 {
                RArea::Node(*type_, Box::new(conv_area(left)), Box::new(conv_area(right)))
            } else {
                RArea::Leaf(*type_)
            }
        }
    }
}

pub fn cmds_from_parsed(p: &[UnOptCode]) -> Vec<Cmd> {
    p.iter().map(|c| Cmd::new(c.get_type(), c.get_hangul_count(), c.get_dot_count(), conv_area(c.get_area()))).collect()
}

pub struct FileVariant {
    pub name: String,
    /// file name bytes that are not UTF-8 (the text `name` is then only for display)
    pub raw_name: Option<Vec<u8>>,
    /// valid content but the tool may refuse or accept it: any defined ending
    pub lenient: bool,
    pub content: Option<Vec<u8>>,
    pub is_dir: bool,
    /// the tool must refuse it: status 1 + diagnostic, nothing executed
    pub unreadable: bool,
}

fn noise_utf8(key: u64, n: usize) -> String {
    const ALPHA: [&str; 43] = [
        "형", "항", "핫", "흣", "흡", "흑", "혀", "하", "흐", "엉", "앙", "앗", "읏", "읍", "윽", "어", "아", "으", ".", "…", "⋯", "⋮", "?", "!", "♥", "❤", "💕", "💖",
        "💗", "💘", "💙", "💚", "💛", "💜", "💝", "♡", " ", "\n", "a", "\u{0}", "\r", "\u{FEFF}", "\u{3000}",
    ];
    let mut s = String::new();
    for i in 0..n {
        let h = mix(key ^ (i as u64).wrapping_mul(0x9E37_79B9));
        if h % 100 < 90 {
            s.push_str(ALPHA[(h >> 8) as usize % ALPHA.len()]);
        } else {
            s.push(char::from_u32(((h >> 8) % 0x11_0000) as u32).unwrap_or('가'));
        }
    }
    s
}

pub fn file_variant(sc: &Scenario, class: &str) -> FileVariant {
    let key = sc.plan.key ^ 0xF17E;
    let src = sc.source().into_bytes();
    let ok_name = sc.file_name.clone();
    let mut v = FileVariant { name: ok_name.clone(), raw_name: None, lenient: false, content: Some(src.clone()), is_dir: false, unreadable: false };
    match class {
        "none" => {}
        "missing" => {
            v.content = None;
            v.unreadable = true;
        }
        "directory" => {
            v.content = None;
            v.is_dir = true;
            v.unreadable = true;
        }
        "no_ext" => {
            v.name = "prog".into();
            v.unreadable = true;
        }
        "wrong_ext" => {
            v.name = ["p.txt", "p.hyeong.txt", "p.HYEONG", "p.", "p.hyeon", "p.hyeongg"][(mix(key) % 6) as usize].into();
            v.unreadable = true;
        }
        "empty" => v.content = Some(Vec::new()),
        "bitflip" => {
            let mut b = src;
            if b.is_empty() {
                b.push(0);
            }
            let p = (mix(key ^ 1) % b.len() as u64) as usize;
            b[p] = 0xFF;
            v.content = Some(b);
            v.unreadable = true;
        }
        "cut_inside_char" => {
            let s = String::from_utf8_lossy(&src).into_owned();
            let multi: Vec<usize> = s.char_indices().filter(|(_, c)| c.len_utf8() > 1).map(|(i, _)| i).collect();
            let mut b;
            if multi.is_empty() {
                b = src.clone();
                b.extend_from_slice(&[0xED, 0x98]);
            } else {
                let i = multi[(mix(key ^ 2) % multi.len() as u64) as usize];
                b = src[..i + 1].to_vec();
            }
            v.content = Some(b);
            v.unreadable = true;
        }
        "lone_continuation" => {
            let mut b = src;
            let p = (mix(key ^ 3) % (b.len() as u64 + 1)) as usize;
            // a continuation byte right at a character boundary
            let s = String::from_utf8_lossy(&b).into_owned();
            let bounds: Vec<usize> = s.char_indices().map(|(i, _)| i).chain(std::iter::once(s.len())).collect();
            let at = bounds[p % bounds.len()];
            b.insert(at, 0x80);
            v.content = Some(b);
            v.unreadable = true;
        }
        "noise_utf8" => {
            let n = (mix(key ^ 4) % 200) as usize;
            v.content = Some(noise_utf8(key ^ 5, n).into_bytes());
        }
        "noise_bytes" => {
            let n = 1 + (mix(key ^ 6) % 60) as usize;
            let b: Vec<u8> = (0..n).map(|i| mix(key ^ 7 ^ (i as u64) << 8) as u8).collect();
            v.unreadable = std::str::from_utf8(&b).is_err();
            v.content = Some(b);
        }
        "bom_prefixed" => {
            // what many editors write: a byte-order mark in front of a valid program
            let mut b = "\u{FEFF}".as_bytes().to_vec();
            b.extend_from_slice(&src);
            v.content = Some(b);
        }
        "crlf_lines" => {
            // one command per line with CR LF line ends
            let mut t = String::new();
            for c in &sc.cmds {
                c.source(&mut t);
                t.push_str("\r\n");
            }
            v.content = Some(t.into_bytes());
        }
        "utf16le" | "utf16be" => {
            // the program saved as UTF-16 with its byte-order mark: a common kind of "not UTF-8"
            let text = String::from_utf8_lossy(&src).into_owned();
            let le = class == "utf16le";
            let mut b: Vec<u8> = if le { vec![0xFF, 0xFE] } else { vec![0xFE, 0xFF] };
            for u in text.encode_utf16() {
                if le {
                    b.extend_from_slice(&u.to_le_bytes());
                } else {
                    b.extend_from_slice(&u.to_be_bytes());
                }
            }
            v.content = Some(b);
            v.unreadable = true;
        }
        "non_utf8_name" => {
            v.name = "p\u{FFFD}.hyeong".into();
            v.raw_name = Some(b"p\xFF.hyeong".to_vec());
            v.lenient = true;
        }
        _ => {
            // deep_area: up to 4096 operators behind one command (the C04 bound)
            let n = 1 + (mix(key ^ 8) % 4096) as usize;
            let mut s = String::from("형.");
            for i in 0..n {
                let h = mix(key ^ 9 ^ (i as u64) << 16);
                if h % 3 == 0 {
                    s.push('♥');
                }
                s.push(if (h >> 8) % 2 == 0 { '?' } else { '!' });
            }
            s.push_str(" 항.");
            v.content = Some(s.into_bytes());
        }
    }
    v
}

pub fn stdin_variant(sc: &Scenario, class: &str) -> Vec<u8> {
    let key = sc.plan.key ^ 0x57D1;
    let mut b = sc.stdin.clone();
    match class {
        "flip" => {
            if b.is_empty() {
                b.push(b'a');
            }
            let p = (mix(key ^ 1) % b.len() as u64) as usize;
            b[p] = 0xFF;
        }
        "cut" => {
            let s = String::from_utf8_lossy(&b).into_owned();
            let multi: Vec<usize> = s.char_indices().filter(|(_, c)| c.len_utf8() > 1).map(|(i, _)| i).collect();
            if multi.is_empty() {
                b.push(0xC3);
            } else {
                let i = multi[(mix(key ^ 2) % multi.len() as u64) as usize];
                b.truncate(i + 1);
            }
        }
        "insert_ff" => {
            let p = (mix(key ^ 3) % (b.len() as u64 + 1)) as usize;
            b.insert(p, 0xFF);
        }
        "bytes" => {
            let n = 1 + (mix(key ^ 4) % 40) as usize;
            b = (0..n).map(|i| mix(key ^ 5 ^ (i as u64) << 8) as u8).collect();
        }
        _ => b.clear(),
    }
    b
}

struct Invocation {
    ending: Ending,
    out: Vec<u8>,
    err: Vec<u8>,
    world: simcore::World,
}

pub fn variant_path(dir: &std::path::Path, fv: &FileVariant) -> std::path::PathBuf {
    use std::os::unix::ffi::OsStrExt;
    match &fv.raw_name {
        Some(b) => dir.join(std::ffi::OsStr::from_bytes(b)),
        None => dir.join(&fv.name),
    }
}

fn invoke(sc: &Scenario, fv: &FileVariant, sub: &str, level: u8, stdin: Vec<u8>, tick_budget: u64) -> Invocation {
    let dir = sim::scratch_dir().join("c13");
    let _ = std::fs::remove_dir_all(&dir);
    std::fs::create_dir_all(&dir).expect("scratch");
    let path = variant_path(&dir, fv);
    if fv.is_dir {
        std::fs::create_dir_all(&path).expect("mkdir");
    } else if let Some(c) = &fv.content {
        std::fs::write(&path, c).expect("write");
    }
    let mut plan = sc.plan.clone();
    plan.tick_budget = tick_budget;
    let sub = sub.to_string();
    let verbose = sc.knob("verbose") == 1;
    let (ending, _, world) = sim::run_process(plan, stdin, || {
        use hyeong::util::option::HyeongOption;
        use termcolor::{ColorChoice, StandardStream};
        let mut stdout = StandardStream::stdout(ColorChoice::Never);
        let mut stderr = StandardStream::stderr(ColorChoice::Never);
        let mut stderr_copy = StandardStream::stderr(ColorChoice::Never);
        let opt = HyeongOption::new().color(ColorChoice::Never).input(path.clone()).optimize(level).verbose(verbose);
        let r = if sub == "check" { hyeong::app::check::run(&mut stdout, &opt) } else { hyeong::app::run::run(&mut stdout, &mut stderr_copy, &opt) };
        hyeong::util::io::handle(&mut stderr, r)
    });
    let _ = std::fs::remove_dir_all(&dir);
    Invocation { ending, out: world.out.clone(), err: world.err.clone(), world }
}

/// a diagnostic block ([error] line, optional [note] lines) ends the stderr text
fn has_diag(err: &[u8]) -> bool {
    crate::props::c02::strip_diag(err).is_some()
}

fn only_marker_lines(out: &[u8]) -> bool {
    let s = String::from_utf8_lossy(out);
    s.is_empty() || (s.ends_with('\n') && s.lines().all(|l| l.starts_with("==> ")))
}

/// What the tool is expected to do, as far as the statement says.
#[derive(Debug, Clone, PartialEq)]
pub enum Want {
    /// status 1 after a diagnostic, nothing executed
    Refuse,
    Status0,
    ProgramExit(i32),
    /// status 1 after a diagnostic (program output before it allowed)
    Diagnosed,
    /// any defined ending (bounded run or unspecified behaviour: no verdict on which)
    AnyDefined,
}

pub fn want_for(cmds: &[Cmd], stdin: &[u8], budget: u64, cap: usize) -> (Want, u64) {
    let p = reflang::preflight(cmds, stdin, budget, cap, false);
    let n = cmds.len() as u64;
    match &p.halt {
        Halt::Ended(End::End) => (Want::Status0, p.safe_steps + 2002 * n + 50),
        Halt::Ended(End::Exit(c)) => (Want::ProgramExit(*c), p.safe_steps + 2002 * n + 50),
        Halt::Ended(End::Encoding(_)) | Halt::Ended(End::InputEncoding) => (Want::Diagnosed, p.safe_steps + 2002 * n + 50),
        _ => (Want::AnyDefined, p.safe_steps.max(1)),
    }
}

fn classify(tag: &str, want: &Want, inv: &Invocation, sub: &str, ncmds: usize) -> Option<Violation> {
    let obs = || {
        format!(
            "{} ; stdout {:?} ; stderr {:?}",
            inv.ending.describe(),
            truncate(&String::from_utf8_lossy(&inv.out), 160),
            truncate(&String::from_utf8_lossy(&inv.err), 200)
        )
    };
    let clause = |c: &str| format!("{}/{}", tag, c);
    match &inv.ending {
        Ending::Panic(_) => return Some(Violation::new(&clause("panic"), "never ends by panic", obs())),
        Ending::Stop => {
            return if *want == Want::AnyDefined { None } else { Some(Violation::new(&clause("ending"), format!("{:?}", want), obs())) };
        }
        Ending::Return => {}
        Ending::Exit { site: "pop_stack_wrap", code } if *code == 0 || *code == 1 => {}
        Ending::Exit { site: "print_error", code: 1 } | Ending::Exit { site: "print_error_str", code: 1 } => {
            if !has_diag(&inv.err) {
                return Some(Violation::new(&clause("diagnostic"), "status 1 only after a diagnostic on stderr", obs()));
            }
        }
        _ => return Some(Violation::new(&clause("ending"), "status 0, program-requested 0/1, or 1 after a diagnostic", obs())),
    }
    let ok = match want {
        Want::AnyDefined => true,
        Want::Refuse => matches!(inv.ending, Ending::Exit { code: 1, site } if site != "pop_stack_wrap") && has_diag(&inv.err) && only_marker_lines(&inv.out),
        Want::Status0 => inv.ending == Ending::Return,
        Want::ProgramExit(c) => inv.ending == Ending::Exit { site: "pop_stack_wrap", code: *c },
        Want::Diagnosed => matches!(inv.ending, Ending::Exit { code: 1, site } if site != "pop_stack_wrap") && has_diag(&inv.err),
    };
    if !ok {
        return Some(Violation::new(&clause("direction"), format!("{:?}", want), obs()));
    }
    // what the listing looks like is not this property's business (C04/C08, not claimed)
    let _ = (sub, ncmds);
    None
}

impl C13 {
    fn one(&self, sc: &Scenario, fclass: &str, sclass: &str, sub: &str, level: u8, out: &mut RunOut) -> Option<Violation> {
        let fv = file_variant(sc, fclass);
        let stdin = if sclass == "none" { sc.stdin.clone() } else { stdin_variant(sc, sclass) };
        let tag = format!("{}{}/file:{}/stdin:{}", sub, if sub == "run" { format!("-O{}", level) } else { String::new() }, fclass, sclass);
        let (want, budget, ncmds) = if fv.unreadable {
            (Want::Refuse, 1000, 0)
        } else {
            // what the file means is decided by the real parser (C04's business); the model takes it from there
            let text = String::from_utf8(fv.content.clone().unwrap_or_default()).unwrap_or_default();
            let parsed = parse::parse(text);
            let cmds = cmds_from_parsed(&parsed);
            if cmds.iter().any(|c| c.count() >= (1 << 31)) {
                return None;
            }
            if fv.lenient || sc.knob("lenient_stdin_error") == 1 {
                (Want::AnyDefined, want_for(&cmds, &stdin, sc.budget, sc.cap_bits).1, cmds.len())
            } else if sub == "check" {
                (Want::Status0, 1000, cmds.len())
            } else {
                let (w, b) = want_for(&cmds, &stdin, sc.budget, sc.cap_bits);
                (w, b, cmds.len())
            }
        };
        let inv = invoke(sc, &fv, sub, level, stdin, budget);
        out.absorb_world(&inv.world);
        out.add("invocations", 1);
        match fclass {
            "none" => {}
            "missing" => out.add("F7_file_missing", 1),
            "directory" => out.add("F7_file_is_directory", 1),
            "no_ext" | "wrong_ext" => out.add("F7_file_wrong_or_no_extension", 1),
            "empty" => out.add("F7_file_empty", 1),
            "bitflip" | "cut_inside_char" | "lone_continuation" => out.add("F7_file_not_utf8", 1),
            "noise_utf8" | "noise_bytes" => out.add("F7_file_noise", 1),
            "non_utf8_name" => out.add("F7_file_name_not_utf8", 1),
            "bom_prefixed" | "crlf_lines" => out.add("F7_file_bom_or_crlf", 1),
            "utf16le" | "utf16be" => out.add("F7_file_utf16", 1),
            _ => out.add("F7_file_deep_area_chain", 1),
        }
        if sclass != "none" {
            out.add(if sclass == "empty" { "F3_stdin_empty" } else { "F4_stdin_not_utf8" }, 1);
        }
        match &want {
            Want::Refuse => out.add("want_refuse", 1),
            Want::Diagnosed => out.add("want_diagnosed_encoding", 1),
            Want::ProgramExit(_) => out.add("want_program_exit", 1),
            Want::Status0 => out.add("want_status0", 1),
            Want::AnyDefined => out.add("want_any_defined", 1),
        }
        classify(&tag, &want, &inv, if fv.lenient { "run" } else { sub }, ncmds)
    }
}

impl C13 {
    /// One explicit RealWorld case: file class/name/bytes, sub-command, level and stdin are all in the scenario.
    pub fn real_case(&self, sc: &Scenario) -> (u64, Option<Violation>) {
        let bin = match real::binary() {
            Ok(b) => b,
            Err(e) => {
                println!("HARNESS-ERROR: {}", e);
                std::process::exit(2);
            }
        };
        let fclass = sc.file_fault.as_str();
        let sub = sc.subcommand.as_str();
        let content = match fclass {
            "missing" | "directory" => None,
            _ => Some(sc.file_content()),
        };
        let unreadable = matches!(fclass, "missing" | "directory" | "no_ext" | "wrong_ext") || content.as_ref().map_or(false, |c| std::str::from_utf8(c).is_err());
        let (want, ncmds) = if unreadable {
            (Want::Refuse, 0)
        } else {
            let text = String::from_utf8(content.clone().unwrap_or_default()).unwrap_or_default();
            let cmds = cmds_from_parsed(&parse::parse(text));
            if cmds.iter().any(|c| c.count() >= (1 << 31)) {
                return (0, None);
            }
            if sub == "check" {
                (Want::Status0, cmds.len())
            } else {
                (want_for(&cmds, &sc.stdin, sc.budget, sc.cap_bits).0, cmds.len())
            }
        };
        if want == Want::AnyDefined {
            // cannot bound a real process by steps: only terminating cases go to RealWorld
            return (0, None);
        }
        let dir = sim::scratch_dir().join("c13real");
        let _ = std::fs::remove_dir_all(&dir);
        std::fs::create_dir_all(&dir).expect("mkdir");
        let path = dir.join(&sc.file_name);
        if fclass == "directory" {
            std::fs::create_dir_all(&path).expect("mkdir");
        } else if let Some(c) = &content {
            std::fs::write(&path, c).expect("write");
        }
        let mut args: Vec<String> = vec![sub.into()];
        if sub == "run" {
            args.push(format!("-O{}", sc.level));
        }
        args.push("--color".into());
        args.push("never".into());
        if sc.knob("verbose") == 1 {
            args.push("--verbose".into());
        }
        args.push(path.to_string_lossy().into_owned());
        let chunks = real::chunks_from_plan(&sc.plan, 64);
        let r = match real::run(&bin, &args, None, &sc.stdin, &chunks, Duration::from_secs(60)) {
            Ok(r) => r,
            Err(e) => {
                println!("HARNESS-ERROR: {}", e);
                std::process::exit(2);
            }
        };
        let _ = std::fs::remove_dir_all(&dir);
        let diag = has_diag(&r.stderr);
        let ok_class = !r.timed_out && r.signal.is_none() && matches!(r.status, Some(0) | Some(1));
        let ok_dir = match &want {
            Want::Refuse => r.status == Some(1) && diag && only_marker_lines(&r.stdout),
            Want::Status0 => r.status == Some(0),
            Want::ProgramExit(c) => r.status == Some(*c),
            Want::Diagnosed => r.status == Some(1) && diag,
            Want::AnyDefined => true,
        };
        let listing_ok = true;
        let _ = ncmds;
        if !(ok_class && ok_dir && listing_ok) {
            let mut v = Violation::new(
                &format!("real/{}/file:{}/{}", sub, fclass, if !ok_class { "ending" } else { "direction" }),
                format!("{:?}; exit status 0/1 only, never a panic (101) or signal", want),
                format!("{} ; stdout {:?} ; stderr {:?}", r.describe(), truncate(&String::from_utf8_lossy(&r.stdout), 160), truncate(&String::from_utf8_lossy(&r.stderr), 300)),
            );
            v.world = "real";
            return (1, Some(v));
        }
        (1, None)
    }
}

impl Property for C13 {
    fn id(&self) -> &'static str {
        "C13"
    }
    fn level(&self) -> &'static str {
        "fault_enumeration"
    }
    fn rule(&self) -> &'static str {
        "base scenario = (valid generated program, valid stdin, I/O fault plan, with or without the global --verbose flag); every base is re-run under every file fault class (missing, directory, no/wrong extension, empty, byte flip, cut inside a character, lone continuation byte, UTF-8 noise, byte noise, deep area chain) with run -O0/1/2 and check, \
         and under every stdin fault class (byte flip, cut inside a character, inserted 0xFF, random bytes, empty) at every level: fault classes are enumerated completely per base, positions within a class are sampled from the base's key; \
         oracle = outcome classification (return / program exit 0|1 / status 1 after diagnostic, never panic) plus direction from the reference model; non-trivial = at least one invocation of the base ended in a refusal or a diagnosed encoding error and one ended normally; distinct = distinct base content hash"
    }
    fn runs(&self, tier: Tier) -> u64 {
        match tier {
            Tier::Quick => 18_000,
            Tier::Thorough => 400_000,
        }
    }
    fn generate(&self, rng: &mut Rng, tier: Tier) -> Scenario {
        let mut sc = Scenario::new("C13");
        let mut sw = gen::swarm(rng, Flavor::General);
        // every base is parsed some forty times: keep the text small
        sw.max_d = 300;
        sw.big_h_pct = 0;
        sc.cmds = gen::gen_program(rng, &sw, Flavor::General, if tier == Tier::Thorough { 20 } else { 12 });
        if rng.chance(30) {
            // programs that write surrogates / values just above U+10FFFF
            let v = *rng.pick(&[0xD800usize, 0xDFFE, 0x110000, 0x110001, 0xDABC, 0xDC00]);
            let pos = rng.usize(0, sc.cmds.len());
            let (h, d) = gen::factor_pair(v);
            sc.cmds.insert(pos, Cmd::new(0, h, d, RArea::Nil));
            if rng.chance(50) {
                sc.cmds.insert(pos + 1, Cmd::new(1, 1, rng.usize(1, 2), RArea::Nil));
            } else {
                // written by duplication (흑 with an output stack as its target)
                sc.cmds.insert(pos + 1, Cmd::new(5, rng.usize(1, 3), rng.usize(1, 2), RArea::Nil));
                sc.cmds.insert(pos + 2, Cmd::new(5, 1, 3, RArea::Nil));
            }
        }
        if rng.chance(40) {
            // make sure input is consumed somewhere
            let pos = rng.usize(0, sc.cmds.len());
            sc.cmds.insert(pos, Cmd::new(5, 1, 0, RArea::Nil));
            sc.cmds.insert(pos + 1, Cmd::new(1, rng.usize(1, 3), 1, RArea::Nil));
        }
        sc.stdin = gen::gen_stdin(rng, 40);
        let ff = rng.chance(50);
        sc.plan = gen::gen_plan(rng, ff);
        sc.budget = 300;
        sc.cap_bits = 96;
        sc.set_knob("level_base", rng.below(3) as i64);
        if rng.chance(20) {
            sc.set_knob("layout", 1);
        }
        // the global `--verbose` flag on every invocation of this base (drawn last)
        sc.set_knob("verbose", rng.chance(30) as i64);
        if rng.chance(4) {
            // output edge family: values of 2^32 and more, surrogates, values above U+10FFFF written as characters
            sc.cmds = gen::output_edge(rng);
            sc.set_knob("output_edge", 1);
        }
        sc
    }
    fn run(&self, sc: &Scenario) -> RunOut {
        let mut out = RunOut::default();
        let base = sc.knob("level_base") as u8;
        let only = sc.knob("only_variant");
        let mut idx = 0i64;
        let mut refused = 0;
        let mut normal = 0;
        for (fi, fclass) in FILE_CLASSES.iter().enumerate() {
            for sub in ["run", "check"] {
                idx += 1;
                if only != 0 && only != idx {
                    continue;
                }
                let level = (base + fi as u8) % 3;
                let before = out.counters.clone();
                if let Some(v) = self.one(sc, fclass, "none", sub, level, &mut out) {
                    out.violation = Some(v);
                    out.add("failing_variant_index", idx as u64);
                    return out;
                }
                let _ = before;
            }
        }
        // the fault-free file at the two other levels too
        // F10: the n-th raw read of standard input fails with an I/O error (any defined ending, never a panic)
        for level in 0u8..3 {
            idx += 1;
            if only != 0 && only != idx {
                continue;
            }
            let mut s2 = sc.clone();
            s2.plan.read_error_at = (mix(sc.plan.key ^ 0xE10 ^ level as u64) % 4) as i64;
            s2.set_knob("lenient_stdin_error", 1);
            if let Some(v) = self.one(&s2, "none", "none", "run", level, &mut out) {
                out.violation = Some(v);
                out.add("failing_variant_index", idx as u64);
                return out;
            }
        }
        for sclass in std::iter::once(&"none").chain(STDIN_CLASSES.iter()) {
            for level in 0u8..3 {
                idx += 1;
                if only != 0 && only != idx {
                    continue;
                }
                if let Some(v) = self.one(sc, "none", sclass, "run", level, &mut out) {
                    out.violation = Some(v);
                    out.add("failing_variant_index", idx as u64);
                    return out;
                }
            }
        }
        for (k, v) in &out.counters {
            if *k == "want_refuse" || *k == "want_diagnosed_encoding" {
                refused += *v;
            }
            if *k == "want_status0" || *k == "want_program_exit" {
                normal += *v;
            }
        }
        out.nontrivial = refused > 0 && normal > 0;
        out.shape = (refused << 8) ^ normal;
        out
    }
    fn extra_shrinks(&self, sc: &Scenario) -> Vec<Scenario> {
        // pin the failing variant so that the replay runs exactly one invocation
        if sc.knob("only_variant") == 0 {
            let out = self.run(sc);
            if let Some(i) = out.counters.iter().find(|c| c.0 == "failing_variant_index") {
                let mut c = sc.clone();
                c.set_knob("only_variant", i.1 as i64);
                return vec![c];
            }
        }
        Vec::new()
    }
    fn post(&self, tier: Tier, seed: u64, stats: &mut Stats) -> Option<(Scenario, Violation)> {
        // RealWorld: the real binary including main.rs and clap
        let n = match tier {
            Tier::Quick => 40,
            Tier::Thorough => 3000,
        };
        let (spawned, bad) = crate::runner::par_find(n, |i| {
            let base = make_scenario(self, seed, i, tier);
            let level = (i % 3) as u8;
            let mut spawned = 0;
            for (fi, fclass) in FILE_CLASSES.iter().enumerate() {
                if *fclass == "non_utf8_name" {
                    // clap refuses such an argument with its own usage error (status 2) before the tool
                    // sees it: command-line syntax is outside the property; the class runs in SimWorld only
                    continue;
                }
                let fv = file_variant(&base, fclass);
                let mut sc = base.clone();
                sc.file_fault = fclass.to_string();
                sc.file_name = fv.name.clone();
                sc.file_bytes = fv.content.clone();
                sc.subcommand = if (i as usize + fi) % 4 == 0 { "check" } else { "run" }.to_string();
                sc.level = level;
                if fi % 2 == 1 {
                    sc.stdin = stdin_variant(&base, STDIN_CLASSES[(i as usize + fi) % 5]);
                } else if i % 4 == 1 && *fclass == "none" {
                    // a long line of multi-byte characters (the real stdin path has its own buffering)
                    let n = 700 + (mix(base.plan.key ^ 0x10E6) % 3000) as usize;
                    let mut t = String::new();
                    for k in 0..n {
                        t.push(char::from_u32(0xAC00 + (mix(base.plan.key ^ (k as u64) << 3) % 11172) as u32).unwrap_or('가'));
                    }
                    t.push('\n');
                    t.push_str(&String::from_utf8_lossy(&base.stdin));
                    sc.stdin = t.into_bytes();
                    // make sure the line is read
                    sc.cmds.insert(0, Cmd::new(5, 1, 0, RArea::Nil));
                    sc.cmds.insert(1, Cmd::new(1, 2, 1, RArea::Nil));
                    sc.cmds.insert(2, Cmd::new(5, 1, 3, RArea::Nil));
                    sc.file_bytes = None;
                }
                let (c, v) = self.real_case(&sc);
                spawned += c;
                if let Some(v) = v {
                    return (spawned, Some((sc, v)));
                }
            }
            (spawned, None)
        });
        stats.extra.push(("realworld_spawns".into(), J::Int(spawned as i64)));
        stats.extra.push((
            "realworld_note".into(),
            J::str("real binary (guard off, main.rs + clap included) on real files and pipes; only cases the model bounds (refusals, check, terminating runs); chunk/reader interleaving on the pipe is not controlled"),
        ));
        bad
    }
    fn replay_real(&self, sc: &Scenario) -> Option<Violation> {
        self.real_case(sc).1
    }
    fn components(&self) -> J {
        J::obj()
            .set("real", J::str("SimWorld: app::run::run / app::check::run + io::handle, util::io::read_file on real files in a /dev/shm scratch directory, parse, optimize, execute, ext::num_to_unicode; RealWorld: the release binary incl. main.rs, clap, real termcolor/std buffering"))
            .set("stubbed", J::str("SimWorld: termcolor sinks, stdin descriptor, process::exit hook; RealWorld: nothing"))
            .set("oracle", J::str("outcome classification; direction from the reference model applied to what the real parser returns for the file"))
    }
    fn assumptions(&self) -> Vec<String> {
        vec![
            "permanent write errors (EPIPE/ENOSPC) and allocation failure are not injected: no property speaks about them".into(),
            "area nesting bounded at 4096 operators (the C04 bound); simulation threads have 256 MB stacks so the bound is the repo's, not the harness's".into(),
            "runs the model cannot bound (non-terminating, value cap) are accepted with any defined ending in SimWorld and are not sent to RealWorld".into(),
        ]
    }
}
