//! C03 — a compiled program behaves exactly like the interpreted program.
//! Translation validation per program: real build_source -> rustc -> executable on
//! real pipes, against the reference model.

use crate::compiled::{build_exe, emit, Emit};
use crate::gen::{self, Flavor};
use crate::json::J;
use crate::props::c01::parse_checked;
use crate::real;
use crate::reflang::{self, probe, Cmd, End, Halt, RArea};
use crate::rng::Rng;
use crate::runner::{truncate, Property, RunOut, Tier, Violation};
use crate::scenario::Scenario;
use std::time::Duration;

pub struct C03;

fn lossy(b: &[u8]) -> String {
    truncate(&String::from_utf8_lossy(b), 300)
}

fn terminating(cmds: &[Cmd], stdin: &[u8], budget: u64, cap: usize) -> Option<reflang::Preflight> {
    let p = reflang::preflight(cmds, stdin, budget, cap, false);
    match p.halt {
        Halt::Ended(End::End) | Halt::Ended(End::Exit(_)) | Halt::Ended(End::Encoding(_)) => Some(p),
        _ => None,
    }
}

/// Does speculation at level 2 stay within small values?  (the optimiser runs in-process)
fn speculation_safe(cmds: &[Cmd], cap: usize) -> bool {
    let n = cmds.len() as u64;
    let w = (101 * n * n + n + 10).min(60_000);
    let p = reflang::preflight(cmds, crate::compiled::SENTINEL, w, cap, false);
    !matches!(p.halt, Halt::Cap | Halt::Memory | Halt::Ended(End::Unspecified(_)))
}

/// Features of a terminating program around the point where level-2 pre-execution must stop
/// (the first read of stdin), computed with the reference model.  The generator keeps, out of
/// many cheap candidates, the one matching most of a randomly drawn target set, so that the few
/// programs a check can afford to compile are the ones that stress the pre-state hand-over.
pub mod feat {
    pub const READS: u32 = 1 << 0;
    pub const LABELS_BEFORE: u32 = 1 << 1;
    pub const TWO_LABELS_ONE_COMMAND: u32 = 1 << 2;
    pub const PENDING_SOURCE: u32 = 1 << 3;
    pub const BIG_INT_ON_STACK: u32 = 1 << 4;
    pub const FRACTION_ON_STACK: u32 = 1 << 5;
    pub const NEGATIVE_ON_STACK: u32 = 1 << 6;
    pub const NAN_ON_STACK: u32 = 1 << 7;
    pub const STACK0_NONEMPTY: u32 = 1 << 8;
    pub const OUTPUT_BEFORE: u32 = 1 << 9;
    pub const BRACE_BEFORE: u32 = 1 << 10;
    pub const JUMP_BACK_INTO_PREFIX: u32 = 1 << 11;
    pub const HEART_RETURN_AFTER: u32 = 1 << 12;
    pub const HIGH_STACK_NONEMPTY: u32 = 1 << 13;
    pub const STDERR_BEFORE: u32 = 1 << 14;
    pub const EXIT_AFTER: u32 = 1 << 15;
    pub const JUMP_BEFORE: u32 = 1 << 16;
    pub const HEART_ONTO_ITSELF: u32 = 1 << 17;
    pub const FORWARD_JUMP: u32 = 1 << 18;
    pub const FIRST_COMMAND_JUMPS: u32 = 1 << 19;
    pub const RETURN_TO_FIRST: u32 = 1 << 20;
    pub const N: u32 = 21;
    pub const NAMES: [&str; 21] = [
        "reads_input",
        "labels_registered_before_read",
        "two_labels_on_one_command",
        "pending_jump_source_at_read",
        "integer_over_32_bits_on_stack_at_read",
        "fraction_on_stack_at_read",
        "negative_on_stack_at_read",
        "nan_on_stack_at_read",
        "stack0_holds_values_at_read",
        "stdout_before_read",
        "brace_in_output_before_read",
        "jump_back_into_pre_executed_part",
        "heart_return_after_read",
        "stack_above_3_holds_values_at_read",
        "stderr_before_read",
        "program_exit_after_read",
        "jump_before_read",
        "heart_return_onto_itself",
        "forward_jump",
        "first_command_is_jump_source",
        "heart_return_to_first_command",
    ];
}

/// Target features count first (rare control-flow coincidences most), then sheer variety.
fn feature_score(f: u32, target: u32) -> u32 {
    let rare = feat::HEART_ONTO_ITSELF | feat::FORWARD_JUMP | feat::FIRST_COMMAND_JUMPS | feat::RETURN_TO_FIRST | feat::TWO_LABELS_ONE_COMMAND | feat::BRACE_BEFORE | feat::STACK0_NONEMPTY;
    (f & target & rare).count_ones() * 1000 + (f & target).count_ones() * 50 + f.count_ones()
}

pub fn boundary_features(cmds: &[Cmd], stdin: &[u8], budget: u64) -> u32 {
    use crate::refnum::Rat;
    let mut m = reflang::Machine::new();
    let mut f = 0u32;
    let mut boundary_labels: Vec<usize> = Vec::new();
    let mut seen_read = false;
    if cmds.is_empty() {
        return 0;
    }
    while m.steps < budget && m.pc < cmds.len() {
        // snapshot of what pre-execution would hand over if this step is the first to read
        let mut snap = 0u32;
        if !seen_read {
            let mut per_cmd = std::collections::HashMap::new();
            for (_, idx) in m.labels.iter() {
                *per_cmd.entry(*idx).or_insert(0u32) += 1;
            }
            if !m.labels.is_empty() {
                snap |= feat::LABELS_BEFORE;
            }
            if per_cmd.values().any(|c| *c >= 2) {
                snap |= feat::TWO_LABELS_ONE_COMMAND;
            }
            if m.last.is_some() {
                snap |= feat::PENDING_SOURCE;
            }
            for (i, st) in m.stacks.iter() {
                if st.is_empty() {
                    continue;
                }
                if *i == 0 {
                    snap |= feat::STACK0_NONEMPTY;
                }
                if *i > 3 {
                    snap |= feat::HIGH_STACK_NONEMPTY;
                }
                for v in st {
                    match v {
                        Rat::NaN => snap |= feat::NAN_ON_STACK,
                        Rat::V { n, d } => {
                            if !d.is_one() {
                                snap |= feat::FRACTION_ON_STACK;
                            } else if n.bits() > 32 {
                                snap |= feat::BIG_INT_ON_STACK;
                            }
                            if n.is_neg() {
                                snap |= feat::NEGATIVE_ON_STACK;
                            }
                        }
                    }
                }
            }
            if !m.out.is_empty() {
                snap |= feat::OUTPUT_BEFORE;
                if m.out.contains(&b'{') || m.out.contains(&b'}') {
                    snap |= feat::BRACE_BEFORE;
                }
            }
            if !m.err.is_empty() {
                snap |= feat::STDERR_BEFORE;
            }
            if m.probes[probe::JUMP] > 0 {
                snap |= feat::JUMP_BEFORE;
            }
        }
        let reads_before = m.probes[probe::READ_LINE] + m.probes[probe::READ_EOF];
        let jumps_before = m.probes[probe::JUMP];
        let rets_before = m.probes[probe::HEART_RETURN];
        let pc = m.pc;
        let r = m.step(cmds, stdin);
        if !seen_read && m.probes[probe::READ_LINE] + m.probes[probe::READ_EOF] > reads_before {
            seen_read = true;
            f |= feat::READS | snap;
            boundary_labels = m.labels.values().copied().filter(|&i| i < pc).collect();
        }
        if seen_read {
            if m.probes[probe::JUMP] > jumps_before && r.is_ok() && boundary_labels.contains(&m.pc) {
                f |= feat::JUMP_BACK_INTO_PREFIX;
            }
            if m.probes[probe::HEART_RETURN] > rets_before {
                f |= feat::HEART_RETURN_AFTER;
            }
        }
        match r {
            Ok(()) => {}
            Err(End::Exit(_)) => {
                if seen_read {
                    f |= feat::EXIT_AFTER;
                }
                break;
            }
            Err(_) => break,
        }
    }
    // control-flow coincidences anywhere in the run (levels 0 and 1 compile the whole program)
    if m.probes[probe::RETURN_TO_SELF] > 0 {
        f |= feat::HEART_ONTO_ITSELF;
    }
    if m.probes[probe::FWD_JUMP] > 0 {
        f |= feat::FORWARD_JUMP;
    }
    if m.probes[probe::JUMP_FROM_FIRST] > 0 {
        f |= feat::FIRST_COMMAND_JUMPS;
    }
    if m.probes[probe::RETURN_TO_FIRST] > 0 {
        f |= feat::RETURN_TO_FIRST;
    }
    f
}

/// Prepare a build path for `hyeong build` that works offline: the runtime crate is a path dependency on the
/// repository under test (what `hyeong install` would fetch from its git URL).
fn prepare_build_path(bp: &std::path::Path) -> bool {
    let repo = std::env::var("VERIF_REPO").unwrap_or_else(|_| "/repo".to_string());
    let crate_dir = bp.join("hyeong-build");
    if std::fs::create_dir_all(crate_dir.join("src")).is_err() {
        return false;
    }
    let manifest = format!(
        "[package]\nname = \"hyeong-build\"\nversion = \"0.1.0\"\nedition = \"2018\"\n\n[dependencies]\nhyeong = {{ path = \"{}\", features = [\"number\"], default-features = false }}\n\n[workspace]\n",
        repo
    );
    std::fs::write(crate_dir.join("Cargo.toml"), manifest).is_ok()
}

/// One `hyeong build -O<level>` of the scenario's program in `bp`, then the executable against the model.
fn cli_case(bin: &std::path::Path, bp: &std::path::Path, sc: &Scenario, pf: &reflang::Preflight, level: u8) -> Option<Violation> {
    let file = bp.join("p.hyeong");
    std::fs::write(&file, sc.file_content()).expect("write");
    let exe = bp.join(format!("p{}.bin", level));
    let _ = std::fs::remove_file(&exe);
    let args: Vec<String> = vec![
        "build".into(),
        "--color".into(),
        "never".into(),
        "--build-path".into(),
        bp.to_string_lossy().into_owned(),
        format!("-O{}", level),
        file.to_string_lossy().into_owned(),
        "-o".into(),
        exe.to_string_lossy().into_owned(),
    ];
    // run from the build path: no cargo configuration of the verification workspace may leak into the build
    let b = std::process::Command::new(bin).args(&args).current_dir(bp).env("CARGO_NET_OFFLINE", "true").env_remove("RUSTFLAGS").env_remove("CARGO_TARGET_DIR").output().ok()?;
    if !b.status.success() || !exe.exists() {
        return Some(Violation::new(
            &format!("cli-O{}-build", level),
            "`hyeong build` produces an executable",
            format!("status {:?} ; stderr {:?} ; stdout {:?}", b.status.code(), lossy(&b.stderr), lossy(&b.stdout)),
        ));
    }
    let chunks = real::chunks_from_plan(&sc.plan, 64);
    let r = real::run(&exe, &[], None, &sc.stdin, &chunks, Duration::from_secs(20)).expect("spawn");
    let want = if let Halt::Ended(End::Exit(c)) = &pf.halt { *c } else { 0 };
    if r.timed_out || r.status != Some(want) || r.stdout != pf.m.out || r.stderr != pf.m.err {
        return Some(Violation::new(
            &format!("cli-O{}-output", level),
            format!("status {} ; stdout {:?} ; stderr {:?}", want, lossy(&pf.m.out), lossy(&pf.m.err)),
            format!("{} ; stdout {:?} ; stderr {:?}", r.describe(), lossy(&r.stdout), lossy(&r.stderr)),
        ));
    }
    None
}

impl Property for C03 {
    fn id(&self) -> &'static str {
        "C03"
    }
    fn level(&self) -> &'static str {
        "translation_validation"
    }
    fn rule(&self) -> &'static str {
        "program = command list that terminates within the step budget with small values (reference pre-flight), stdin text delivered in planned chunks; for level 0,1,2 the real optimize + compile::build_source run in-process, the text goes unchanged to rustc against the number-only build of /repo, and the executable's stdout/stderr/exit status are compared with the reference model; \
         non-trivial = the program has at least one area-carrying command and produces output or exits; distinct = distinct scenario content hash"
    }
    fn runs(&self, tier: Tier) -> u64 {
        match tier {
            Tier::Quick => 224,
            Tier::Thorough => 4000,
        }
    }
    fn fresh_runs(&self, tier: Tier) -> u64 {
        // every run costs three rustc invocations
        if tier == Tier::Thorough {
            100
        } else {
            16
        }
    }
    fn generate(&self, rng: &mut Rng, tier: Tier) -> Scenario {
        let mut sc = Scenario::new("C03");
        sc.budget = 3000;
        sc.cap_bits = 96;
        // targeted family: a jump inside the part level 2 pre-executes, input needed, then a ♡
        // return taken at run time (searched with the reference model, which costs microseconds)
        if rng.chance(30) {
            for attempt in 0..4000 {
                let mut cmds: Vec<Cmd> = Vec::new();
                for _ in 0..rng.usize(0, 2) {
                    cmds.push(Cmd::new(0, rng.usize(1, 3), rng.usize(0, 40), RArea::Nil));
                }
                let rounds = rng.usize(2, 4);
                gen::small_loop_core(rng, &mut cmds, rounds);
                // boundary: select stdin, read
                cmds.push(Cmd::new(5, 1, 0, RArea::Nil));
                if rng.chance(50) {
                    cmds.push(Cmd::new(1, 1, rng.usize(4, 6), RArea::Nil));
                }
                cmds.push(Cmd::new(5, rng.usize(1, 2), 3, RArea::Nil));
                for _ in 0..rng.usize(1, 5) {
                    let kind = *rng.pick(&[0u8, 0, 1, 1, 3, 5]);
                    let h = rng.usize(1, 2);
                    let d = *rng.pick(&[0usize, 1, 1, 2, 3, 3, 3, 4]);
                    let d = if kind == 5 && d <= 2 { 3 } else { d };
                    let area = match rng.below(4) {
                        0 => RArea::Nil,
                        1 => RArea::Leaf(13),
                        2 => RArea::Node(rng.below(2) as u8, Box::new(RArea::Leaf(13)), Box::new(RArea::Nil)),
                        _ => RArea::Node(rng.below(2) as u8, Box::new(RArea::Nil), Box::new(RArea::Leaf(13))),
                    };
                    cmds.push(Cmd::new(kind, h, d, area));
                }
                let mut stdin = Vec::new();
                for _ in 0..rng.usize(1, 4) {
                    stdin.push(*rng.pick(&[0u8, 1, 2, 3, b'a', b'\n']));
                }
                if let Some(p) = terminating(&cmds, &stdin, 600, sc.cap_bits) {
                    if p.m.probes[probe::HEART_RETURN] >= 1 && p.m.probes[probe::READ_LINE] >= 1 && matches!(p.halt, Halt::Ended(End::End) | Halt::Ended(End::Exit(_))) {
                        sc.cmds = cmds;
                        sc.stdin = stdin;
                        sc.set_knob("pending_heart_family", 1);
                        sc.set_knob("attempt", attempt);
                        let ff = rng.chance(30);
                        sc.plan = gen::gen_plan(rng, ff);
                        return sc;
                    }
                }
            }
        }
        // coverage-guided choice among cheap candidates: a random target set of boundary features,
        // the terminating candidate matching most of it wins (the model run costs microseconds,
        // the three rustc runs that follow cost a second)
        let mut target = 0u32;
        for _ in 0..rng.usize(2, 4) {
            target |= 1 << rng.below(feat::N as u64);
        }
        if rng.chance(75) {
            target |= feat::READS;
        }
        let mut best: Option<(u32, Vec<Cmd>, Vec<u8>)> = None;
        let rare_control = target & (feat::HEART_ONTO_ITSELF | feat::FORWARD_JUMP | feat::FIRST_COMMAND_JUMPS | feat::RETURN_TO_FIRST) != 0;
        let tries = if rare_control { 1500 } else if tier == Tier::Quick { 120 } else { 200 };
        for attempt in 0..tries {
            let mut sw = gen::swarm(rng, Flavor::Compile);
            sw.max_d = 400;
            sw.big_h_pct = 0;
            let max_cmds = match tier {
                Tier::Quick => 14,
                Tier::Thorough => *rng.pick(&[8usize, 14, 14, 24, 48]),
            };
            let control_target = target & (feat::TWO_LABELS_ONE_COMMAND | feat::JUMP_BACK_INTO_PREFIX | feat::HEART_RETURN_AFTER | feat::PENDING_SOURCE | feat::HEART_ONTO_ITSELF | feat::FORWARD_JUMP | feat::FIRST_COMMAND_JUMPS | feat::RETURN_TO_FIRST) != 0;
            let goto_pct = if rare_control { 92 } else if control_target { 70 } else { 20 };
            if rng.chance(if target & feat::TWO_LABELS_ONE_COMMAND != 0 { 60 } else { 1 }) {
                // one command registers two labels before the read; afterwards a jump to the one registered second
                let a = rng.range(2, 12) as u8;
                let b = 2 + (a - 2 + 1 + rng.below(10) as u8) % 11;
                let c = 2 + (b - 2 + 1 + rng.below(9) as u8) % 11;
                if a != b && b != c && a != c {
                    let g = |area: RArea| Cmd::new(1, 1, 3, area);
                    let mut t: Vec<Cmd> = Vec::new();
                    for _ in 0..rng.usize(0, 2) {
                        t.push(Cmd::new(0, 1, rng.usize(33, 90), RArea::Nil));
                        t.push(Cmd::new(1, 1, rng.usize(1, 2), RArea::Nil));
                    }
                    for _ in 0..rng.usize(1, 3) {
                        t.push(Cmd::new(0, 1, rng.usize(5, 9), RArea::Nil));
                    }
                    t.push(Cmd::new(0, 1, rng.usize(0, 2), RArea::Nil));
                    t.push(Cmd::new(0, 1, 3, RArea::Nil));
                    t.push(g(RArea::Leaf(c)));
                    t.push(g(RArea::Node(1, Box::new(RArea::Leaf(a)), Box::new(RArea::Leaf(b)))));
                    t.push(g(RArea::Node(0, Box::new(RArea::Leaf(c)), Box::new(RArea::Nil))));
                    t.push(Cmd::new(5, 1, 0, RArea::Nil));
                    t.push(Cmd::new(5, rng.usize(1, 2), 3, RArea::Nil));
                    // jumps iff the character just read equals the count (U+0003): once, for the first character
                    t.push(g(RArea::Node(1, Box::new(RArea::Leaf(*rng.pick(&[a, b, b, c]))), Box::new(RArea::Nil))));
                    // what is left on the stack becomes output, so that a wrong landing block shows
                    for _ in 0..rng.usize(2, 4) {
                        t.push(Cmd::new(3, 1, rng.usize(1, 2), RArea::Nil));
                        t.push(Cmd::new(1, 1, rng.usize(4, 7), RArea::Nil));
                    }
                    for _ in 0..rng.usize(1, 3) {
                        t.push(Cmd::new(0, 1, rng.usize(48, 90), RArea::Nil));
                        t.push(Cmd::new(1, 1, 1, RArea::Nil));
                    }
                    let mut stdin = vec![3u8];
                    for _ in 0..rng.usize(0, 3) {
                        stdin.push(*rng.pick(&[b'a', b'z', b'\n', 3u8, b'0']));
                    }
                    if terminating(&t, &stdin, sc.budget, sc.cap_bits).is_some() && speculation_safe(&t, 128) {
                        let f = boundary_features(&t, &stdin, sc.budget);
                        let score = feature_score(f, target);
                        if best.as_ref().map_or(true, |x| score > x.0) {
                            best = Some((score, t, stdin));
                            sc.set_knob("attempt", attempt as i64);
                        }
                    }
                    continue;
                }
            }
            let is_goto = rng.chance(goto_pct);
            let mut cmds = if is_goto { gen::goto_machine(rng, false) } else { gen::gen_program(rng, &sw, Flavor::Compile, max_cmds) };
            if is_goto && rng.chance(70) {
                // read in the middle or near the end, then more conditional gotos over the same labels
                let pos = rng.usize(cmds.len() / 2, cmds.len());
                cmds.insert(pos, Cmd::new(5, 1, 0, RArea::Nil));
                cmds.insert(pos + 1, Cmd::new(5, 1, 3, RArea::Nil));
                let more = gen::goto_machine(rng, false);
                let hearts: Vec<u8> = {
                    let mut h = Vec::new();
                    for c in cmds.iter() {
                        c.area.hearts(&mut h);
                    }
                    h.retain(|x| *x != 13);
                    h
                };
                let (gh, gd) = cmds.iter().find(|c| c.kind == 1 && !c.area.is_nil()).map(|c| (c.h, c.d)).unwrap_or((1, 3));
                for (k, mut c) in more.into_iter().take(rng.usize(2, 6)).enumerate() {
                    if c.kind == 1 && !c.area.is_nil() && !hearts.is_empty() {
                        // same count and hearts as the first machine: jumps land in the pre-executed part
                        c.h = gh;
                        c.d = gd;
                        c.area = match c.area {
                            RArea::Leaf(13) => RArea::Leaf(13),
                            RArea::Leaf(_) => RArea::Leaf(hearts[k % hearts.len()]),
                            RArea::Node(t, _, _) => RArea::Node(t, Box::new(RArea::Leaf(hearts[k % hearts.len()])), Box::new(RArea::Leaf(hearts[(k + 1) % hearts.len()]))),
                            RArea::Nil => RArea::Nil,
                        };
                    }
                    cmds.insert((pos + 2 + k).min(cmds.len()), c);
                }
            }
            if rng.chance(25) {
                gen::optimizer_hazard(rng, &mut cmds);
            }
            if rng.chance(50) {
                gen::small_loop(rng, &mut cmds);
            }
            if rng.chance(30) {
                gen::arith_template(rng, &mut cmds);
            }
            if rng.chance(12) {
                // more passes than the pre-execution's jump budget: level 2 must roll the loop back
                let rounds = if rng.chance(40) { *rng.pick(&[99usize, 100, 101, 102, 103]) } else { rng.usize(99, 190) };
                let mut lp = Vec::new();
                gen::small_loop_core(rng, &mut lp, rounds);
                let pos = rng.usize(0, cmds.len());
                for (i, c) in lp.into_iter().enumerate() {
                    cmds.insert(pos + i, c);
                }
            }
            if rng.chance(75) {
                // boundary: the pre-executed prefix stops here (input needed), later code returns to stack 3
                let pos = rng.usize(1, cmds.len());
                let area = if rng.chance(50) { gen::gen_area(rng, &sw, 3) } else { RArea::Nil };
                cmds.insert(pos, Cmd::new(5, 1, 0, area));
                let h = rng.usize(1, 2);
                cmds.insert(pos + 1, Cmd::new(5, h, *rng.pick(&[3usize, 3, 1, 4]), RArea::Nil));
            }
            if rng.chance(50) {
                // dump tail: what the stacks hold becomes output (text of the value through a negated copy)
                cmds.push(Cmd::new(5, 1, 3, RArea::Nil));
                for _ in 0..rng.usize(1, 4) {
                    cmds.push(Cmd::new(3, 1, rng.usize(1, 2), RArea::Nil));
                    cmds.push(Cmd::new(1, 1, rng.usize(4, 7), RArea::Nil));
                }
            }
            let stdin = gen::gen_stdin(rng, 30);
            if terminating(&cmds, &stdin, sc.budget, sc.cap_bits).is_some() && speculation_safe(&cmds, 128) {
                let f = boundary_features(&cmds, &stdin, sc.budget);
                let score = feature_score(f, target);
                if best.as_ref().map_or(true, |b| score > b.0) {
                    best = Some((score, cmds, stdin));
                    sc.set_knob("attempt", attempt as i64);
                }
            }
        }
        if let Some((_, cmds, stdin)) = best {
            sc.cmds = cmds;
            sc.stdin = stdin;
            sc.set_knob("target_features", target as i64);
        }
        let ff = rng.chance(30);
        sc.plan = gen::gen_plan(rng, ff);
        sc
    }
    fn run(&self, sc: &Scenario) -> RunOut {
        let mut out = RunOut::default();
        if sc.cmds.is_empty() {
            out.skipped = Some("no terminating program found in 40 draws");
            return out;
        }
        let parsed = match parse_checked(sc) {
            Ok(p) => p,
            Err(v) => {
                out.violation = Some(v);
                return out;
            }
        };
        let pf = match terminating(&sc.cmds, &sc.stdin, sc.budget, sc.cap_bits) {
            Some(p) => p,
            None => {
                out.skipped = Some("program does not terminate within the budget (after shrinking)");
                return out;
            }
        };
        if !speculation_safe(&sc.cmds, 128) {
            out.skipped = Some("speculation window leaves the value cap");
            return out;
        }
        let n = sc.cmds.len() as u64;
        let areas = sc.cmds.iter().filter(|c| !c.area.is_nil()).count();
        out.add("programs", 1);
        let bf = boundary_features(&sc.cmds, &sc.stdin, sc.budget);
        for (i, name) in feat::NAMES.iter().enumerate() {
            if bf & (1 << i) != 0 {
                out.add(name, 1);
            }
        }
        out.add("area_carrying_commands", areas as u64);
        out.add("jump_taken", pf.m.probes[probe::JUMP]);
        out.add("heart_return_taken", pf.m.probes[probe::HEART_RETURN]);
        out.add("line_read", pf.m.probes[probe::READ_LINE]);
        out.add("fraction_produced", pf.m.probes[probe::FRACTION]);
        out.add("negative_produced", pf.m.probes[probe::NEGATIVE]);
        out.nontrivial = areas > 0 && (!pf.m.out.is_empty() || !pf.m.err.is_empty() || matches!(pf.halt, Halt::Ended(End::Exit(_))));
        out.shape = crate::props::c01::shape_of(&pf.m.probes, &None) ^ (areas as u64) << 40;
        let chunks = real::chunks_from_plan(&sc.plan, 64);
        if !chunks.is_empty() {
            out.add("F1_short_read", 1);
        }
        for level in 0u8..=2 {
            let tag = |c: &str| format!("O{}-{}", level, c);
            let src = match emit(&parsed, level, 2000 * n * n + n + 10) {
                Emit::Source(s) => s,
                Emit::OptimizeError(m) => {
                    if matches!(pf.halt, Halt::Ended(End::Encoding(_))) && level == 2 {
                        out.add("optimize_refused_unencodable_output", 1);
                        continue;
                    }
                    out.violation = Some(Violation::new(&tag("emit"), "source text", format!("optimize error: {}", m)));
                    return out;
                }
                Emit::Misbehaved(m) => {
                    out.violation = Some(Violation::new(&tag("emit"), "source text, no effects", m));
                    return out;
                }
            };
            if level == 2 {
                let resumed = src.contains("point.insert(") || src.contains("stack.data[");
                out.add("level2_resumes_with_state", resumed as u64);
                out.add("level2_pending_heart_source", src.contains("\n    last = Option::Some(") as u64);
            }
            let exe = match build_exe(&src, &format!("p{}", level)) {
                Ok(e) => e,
                Err(msg) => {
                    if msg.starts_with("cannot run rustc") || msg.contains("libhyeong.rlib missing") || msg.contains("cargo") {
                        println!("HARNESS-ERROR: {}", truncate(&msg, 400));
                        std::process::exit(2);
                    }
                    out.violation = Some(Violation::new(&tag("rustc"), "emitted source is accepted by rustc", truncate(&msg, 1500)));
                    return out;
                }
            };
            out.add("rustc_runs", 1);
            // when the program ends without ever seeing the end of its input, the producer may still be there:
            // standard input is then kept open until the executable has exited
            let never_eof = pf.m.probes[probe::READ_EOF] == 0 && (sc.stdin.is_empty() || sc.stdin.ends_with(b"\n"));
            let held = never_eof && (sc.run + level as u64) % 2 == 0;
            if held {
                out.add("stdin_held_open", 1);
            }
            let mut r = if held {
                real::run_stdin_held_open(&exe, &[], &sc.stdin, &chunks, Duration::from_secs(20)).expect("spawn")
            } else {
                real::run(&exe, &[], None, &sc.stdin, &chunks, Duration::from_secs(20)).expect("spawn")
            };
            if r.timed_out && held {
                let _ = std::fs::remove_file(&exe);
                out.violation = Some(Violation::new(
                    &tag("waits-for-end-of-input"),
                    "the executable ends as the interpreter does, without waiting for standard input to be closed",
                    format!("still running after 20 s with standard input open ; stdout so far {:?}", lossy(&r.stdout)),
                ));
                return out;
            }
            if r.timed_out {
                // retry alone before it counts
                r = real::run(&exe, &[], None, &sc.stdin, &chunks, Duration::from_secs(40)).expect("spawn");
            }
            let _ = std::fs::remove_file(&exe);
            out.add("compiled_runs", 1);
            // RealWorld has no event log: fold the observable result into the run's hash
            for b in r.stdout.iter().chain(r.stderr.iter()) {
                out.log_hash = (out.log_hash ^ *b as u64).wrapping_mul(0x0000_0100_0000_01B3);
            }
            out.log_hash = (out.log_hash ^ r.status.unwrap_or(-1) as u64).wrapping_mul(0x0000_0100_0000_01B3);
            let v = match &pf.halt {
                Halt::Ended(End::End) | Halt::Ended(End::Exit(_)) => {
                    let want = if let Halt::Ended(End::Exit(c)) = &pf.halt { *c } else { 0 };
                    if r.timed_out || r.status != Some(want) {
                        Some(Violation::new(&tag("status"), format!("exit status {}", want), format!("{} ; stdout {:?} ; stderr {:?}", r.describe(), lossy(&r.stdout), lossy(&r.stderr))))
                    } else if r.stdout != pf.m.out {
                        Some(Violation::new(&tag("stdout"), lossy(&pf.m.out), lossy(&r.stdout)))
                    } else if r.stderr != pf.m.err {
                        Some(Violation::new(&tag("stderr"), lossy(&pf.m.err), lossy(&r.stderr)))
                    } else {
                        None
                    }
                }
                _ => {
                    // unencodable output: abnormal stop, stdout a prefix of the model's
                    out.add("abnormal_stop_expected", 1);
                    if r.timed_out || r.status == Some(0) || !pf.m.out.starts_with(&r.stdout) {
                        Some(Violation::new(
                            &tag("abnormal-stop"),
                            format!("abnormal stop; stdout a prefix of {:?}", lossy(&pf.m.out)),
                            format!("{} ; stdout {:?}", r.describe(), lossy(&r.stdout)),
                        ))
                    } else {
                        None
                    }
                }
            };
            if let Some(mut v) = v {
                v.world = "sim";
                out.violation = Some(v);
                return out;
            }
        }
        out
    }
    fn post(&self, tier: Tier, seed: u64, stats: &mut crate::runner::Stats) -> Option<(Scenario, Violation)> {
        // RealWorld through the real command line: `hyeong build` (app/build.rs, clap, the cargo invocation it
        // spawns) in a build path prepared offline: hyeong-build/Cargo.toml with a path dependency on the
        // repository under test instead of the git URL `install` would write.
        let bin = match real::binary() {
            Ok(b) => b,
            Err(e) => {
                println!("HARNESS-ERROR: {}", e);
                std::process::exit(2);
            }
        };
        let workers = 4u64;
        let per_worker: u64 = if tier == Tier::Thorough { 40 } else { 3 };
        let root = crate::sim::scratch_root().join("c03cli");
        let found: std::sync::Mutex<Vec<(u64, Scenario, Violation)>> = std::sync::Mutex::new(Vec::new());
        let built = std::sync::atomic::AtomicU64::new(0);
        std::thread::scope(|sc_| {
            for w in 0..workers {
                let (bin, root, found, built) = (&bin, &root, &found, &built);
                sc_.spawn(move || {
                    let bp = root.join(format!("bp{}", w));
                    if !prepare_build_path(&bp) {
                        return;
                    }
                    for k in 0..per_worker {
                        let i = w + k * workers;
                        if !found.lock().unwrap().is_empty() {
                            return;
                        }
                        let sc = crate::runner::make_scenario(self, seed, i, tier);
                        if sc.cmds.is_empty() {
                            continue;
                        }
                        let pf = match terminating(&sc.cmds, &sc.stdin, sc.budget, sc.cap_bits) {
                            Some(p) => p,
                            None => continue,
                        };
                        if !matches!(pf.halt, Halt::Ended(End::End) | Halt::Ended(End::Exit(_))) {
                            continue;
                        }
                        for level in 0u8..=2 {
                            built.fetch_add(1, std::sync::atomic::Ordering::Relaxed);
                            let v = cli_case(bin, &bp, &sc, &pf, level);
                            if let Some(mut v) = v {
                                v.world = "real";
                                let mut s = sc.clone();
                                s.level = level;
                                s.subcommand = "build".into();
                                found.lock().unwrap().push((i, s, v));
                                return;
                            }
                        }
                    }
                });
            }
        });
        let _ = std::fs::remove_dir_all(&root);
        stats.extra.push(("realworld_cli_builds".into(), J::Int(built.load(std::sync::atomic::Ordering::Relaxed) as i64)));
        stats.extra.push((
            "realworld_note".into(),
            J::str("`hyeong build -O0/1/2` of the release binary in a build path prepared offline (runtime crate as a path dependency on the repository under test), then the produced executable on real pipes against the reference model"),
        ));
        let mut f = found.into_inner().unwrap();
        f.sort_by_key(|x| x.0);
        f.into_iter().next().map(|(_, s, v)| (s, v))
    }
    fn replay_real(&self, sc: &Scenario) -> Option<Violation> {
        let bin = real::binary().ok()?;
        let pf = terminating(&sc.cmds, &sc.stdin, sc.budget, sc.cap_bits)?;
        let bp = crate::sim::scratch_root().join("c03cli-replay");
        if !prepare_build_path(&bp) {
            return None;
        }
        let v = cli_case(&bin, &bp, sc, &pf, sc.level).map(|mut v| {
            v.world = "real";
            v
        });
        let _ = std::fs::remove_dir_all(&bp);
        v
    }
    fn components(&self) -> J {
        J::obj()
            .set("real", J::str("parse, optimize::optimize, compile::build_source (in-process, SimWorld armed), rustc on the unchanged text, number-only libhyeong.rlib built from /repo (guard off), the resulting executable on real pipes"))
            .set("stubbed", J::str("app/build.rs (needs cargo + network): replaced by a direct rustc invocation with the flags a release build of the generated crate has (no debug assertions, no overflow checks); opt-level 0 instead of 3"))
            .set("oracle", J::str("reference model on (command list, stdin)"))
    }
    fn assumptions(&self) -> Vec<String> {
        vec![
            "only programs the reference model shows to terminate within 3000 steps with values below 96 bits: a compiled loop cannot be stopped by the step clock".into(),
            "F2/F5/F6 are unavailable for an external executable; stdin chunking (F1) is applied by sized write(2) calls, kernel interleaving uncontrolled".into(),
            "wall-clock limit 20 s per executable run (three orders of magnitude above the expected run time), retried once alone with 40 s; 4 GB address-space limit and 16 MB output cap for runaway programs".into(),
        ]
    }
}
