//! C14 — Unicode text passes through a program unchanged.

use crate::compiled::{build_exe, emit, Emit};
use crate::gen;
use crate::json::J;
use crate::props::c01::{app_run, parse_checked};
use crate::real;
use crate::reflang::{self, Cmd, End, Halt, RArea};
use crate::refnum::NAN_TEXT;
use crate::rng::Rng;
use crate::runner::{make_scenario, truncate, Property, RunOut, Stats, Tier, Violation};
use crate::scenario::Scenario;
use crate::sim::Ending;
use std::time::Duration;

pub struct C14;

/// copy exactly k characters: 흑 then k x 항.
pub fn copy_k(k: usize) -> Vec<Cmd> {
    let mut v = vec![Cmd::new(5, 1, 0, RArea::Nil)];
    for _ in 0..k {
        v.push(Cmd::new(1, 1, 1, RArea::Nil));
    }
    v
}

/// copy until end of input (DESIGN Appendix E): 흑 흑 흣..... 흣.♥ 하앙..... 흑 흣 형.?♥?
/// parametrised by the heart and the junk stack
pub fn copy_all(heart: u8, junk: usize) -> Vec<Cmd> {
    let q = RArea::Node(0, Box::new(RArea::Nil), Box::new(RArea::Node(0, Box::new(RArea::Leaf(heart)), Box::new(RArea::Nil))));
    vec![
        Cmd::new(5, 1, 0, RArea::Nil),
        Cmd::new(5, 1, 0, RArea::Nil),
        Cmd::new(3, 1, junk, RArea::Nil),
        Cmd::new(3, 1, 1, RArea::Leaf(heart)),
        Cmd::new(1, 2, junk, RArea::Nil),
        Cmd::new(5, 1, 0, RArea::Nil),
        Cmd::new(3, 1, 0, RArea::Nil),
        Cmd::new(0, 1, 1, q),
    ]
}

/// a second copier with a multi-syllable label command (count = lh * ld >= 1):
/// 흑 혀엉.♥ 항..... 항. 흑 흣..... 혀엉.?♥?
pub fn copy_all_b(heart: u8, junk: usize, lh: usize, ld: usize) -> Vec<Cmd> {
    let q = RArea::Node(0, Box::new(RArea::Nil), Box::new(RArea::Node(0, Box::new(RArea::Leaf(heart)), Box::new(RArea::Nil))));
    vec![
        Cmd::new(5, 1, 0, RArea::Nil),
        Cmd::new(0, lh, ld, RArea::Leaf(heart)),
        Cmd::new(1, 1, junk, RArea::Nil),
        Cmd::new(1, 1, 1, RArea::Nil),
        Cmd::new(5, 1, 0, RArea::Nil),
        Cmd::new(3, 1, junk, RArea::Nil),
        Cmd::new(0, lh, ld, q),
    ]
}

fn knob_or(sc: &Scenario, k: &str, default: i64) -> i64 {
    let v = sc.knob(k);
    if v == 0 {
        default
    } else {
        v
    }
}

pub fn family(sc: &Scenario) -> Vec<Cmd> {
    let heart = knob_or(sc, "heart", 2) as u8;
    let junk = knob_or(sc, "junk", 5) as usize;
    match sc.knob("family") {
        1 => copy_all(heart, junk),
        2 => copy_all_b(heart, junk, knob_or(sc, "lh", 2) as usize, knob_or(sc, "ld", 1) as usize),
        _ => copy_k(sc.knob("k") as usize),
    }
}

/// closed form of what the program must print
pub fn closed_form(sc: &Scenario) -> Vec<u8> {
    let text = String::from_utf8_lossy(&sc.stdin).into_owned();
    if sc.knob("family") >= 1 {
        if text.is_empty() {
            NAN_TEXT.as_bytes().to_vec()
        } else {
            text.into_bytes()
        }
    } else {
        let k = sc.knob("k") as usize;
        let mut out = String::new();
        let mut it = text.chars();
        for _ in 0..k {
            match it.next() {
                Some(c) => out.push(c),
                None => out.push_str(NAN_TEXT),
            }
        }
        out.into_bytes()
    }
}

const SPECIAL: [u32; 16] = [0x0, 0x1, 0x9, 0xD, 0x7F, 0x80, 0x7FF, 0x800, 0xD7FF, 0xE000, 0xFFFD, 0xFFFF, 0x10000, 0x1F600, 0x10FFFF, 0xFEFF];

pub const EDGE: [u32; 16] = [0xFEFF, 0x1A, 0x04, 0x00, 0x7F, 0x0D, 0x0B, 0x0C, 0x85, 0x2028, 0x2029, 0xFFFE, 0xFFFF, 0x1B, 0xA0, 0x10FFFF];

pub fn edge_char(rng: &mut Rng) -> char {
    char::from_u32(*rng.pick(&EDGE)).unwrap_or('\u{FEFF}')
}

pub fn gen_text(rng: &mut Rng, tier: Tier) -> Vec<u8> {
    let mut s = String::new();
    let size = match rng.below(100) {
        0..=7 => 0,
        8..=59 => rng.usize(1, 40),
        60..=94 => rng.usize(41, 400),
        95..=98 => rng.usize(401, 4000),
        _ => {
            if tier == Tier::Thorough {
                rng.usize(4001, 100_000)
            } else {
                rng.usize(4001, 12_000)
            }
        }
    };
    let line_len = match rng.below(4) {
        0 => 1,
        1 => rng.usize(1, 10),
        2 => rng.usize(10, 200),
        _ => usize::MAX,
    };
    let nl = match rng.below(4) {
        0 => "\r\n",
        1 => "\r",
        _ => "\n",
    };
    let ascii_only = rng.chance(15);
    let mut in_line = 0usize;
    for _ in 0..size {
        if in_line >= line_len || rng.chance(3) {
            s.push_str(if rng.chance(90) { nl } else { "\n" });
            in_line = 0;
            if rng.chance(10) {
                s.push('\n');
            }
            continue;
        }
        let c = if ascii_only {
            rng.range(0x20, 0x7E) as u32
        } else {
            match rng.below(100) {
                0..=29 => rng.range(0x20, 0x7E) as u32,
                30..=44 => *rng.pick(&SPECIAL),
                45..=59 => rng.range(0x80, 0x7FF) as u32,
                60..=79 => rng.range(0x800, 0xFFFF) as u32,
                80..=94 => rng.range(0x10000, 0x10FFFF) as u32,
                _ => rng.range(0, 0x1F) as u32,
            }
        };
        s.push(char::from_u32(c).unwrap_or('\u{E000}'));
        in_line += 1;
    }
    if size > 0 && rng.chance(60) {
        s.push_str(nl);
    }
    if rng.chance(10) {
        // dictionary strings (terminal escapes, end-of-file marks, the tool's own vocabulary)
        let m = gen::magic(rng);
        match rng.below(4) {
            0 => s.insert_str(0, m),
            1 => s.push_str(m),
            2 => {
                if !s.is_empty() && !s.ends_with('\n') {
                    s.push('\n');
                }
                s.push_str(m);
                s.push('\n');
            }
            _ => {
                let cs: Vec<char> = s.chars().collect();
                let at = rng.usize(0, cs.len());
                s = cs[..at].iter().collect::<String>() + m + &cs[at..].iter().collect::<String>();
            }
        }
    }
    // characters with a history of special treatment, at the very start and the very end of the input
    if rng.chance(12) {
        s.insert(0, edge_char(rng));
    }
    if rng.chance(12) {
        if rng.chance(50) && s.ends_with('\n') {
            s.pop();
            if s.ends_with('\r') {
                s.pop();
            }
        }
        s.push(edge_char(rng));
    }
    s.into_bytes()
}

fn lossy(b: &[u8]) -> String {
    truncate(&String::from_utf8_lossy(b), 240)
}

fn first_diff(a: &[u8], b: &[u8]) -> usize {
    a.iter().zip(b.iter()).position(|(x, y)| x != y).unwrap_or(a.len().min(b.len()))
}

fn diff_msg(want: &[u8], got: &[u8]) -> (String, String) {
    let p = first_diff(want, got);
    let lo = p.saturating_sub(24);
    (
        format!("{} bytes; around byte {}: {:?}", want.len(), p, lossy(&want[lo..(p + 40).min(want.len())])),
        format!("{} bytes; around byte {}: {:?}", got.len(), p, lossy(&got[lo.min(got.len())..(p + 40).min(got.len())])),
    )
}

pub struct Expected {
    pub out: Vec<u8>,
}

pub fn expected(sc: &Scenario) -> Result<Expected, String> {
    let cmds = family(sc);
    let chars = String::from_utf8_lossy(&sc.stdin).chars().count() as u64;
    // the copy loops leave two junk values per character behind
    let pf = reflang::preflight_mem(&cmds, &sc.stdin, 20 * chars + 200, 256, false, 4 * chars as usize + 1000);
    if pf.halt != Halt::Ended(End::End) {
        return Err(format!("model did not finish the copy program: {:?}", pf.halt));
    }
    let cf = closed_form(sc);
    if cf != pf.m.out {
        return Err(format!("closed form and reference model disagree: {:?} vs {:?}", lossy(&cf), lossy(&pf.m.out)));
    }
    if !pf.m.err.is_empty() {
        return Err("model wrote to stderr".into());
    }
    Ok(Expected { out: cf })
}

const COMPILED_FAMILY: [(i64, i64); 5] = [(0, 1), (0, 7), (0, 40), (1, 0), (2, 0)];

impl Property for C14 {
    fn id(&self) -> &'static str {
        "C14"
    }
    fn level(&self) -> &'static str {
        "exploration"
    }
    fn rule(&self) -> &'static str {
        "scenario = (copy program: fixed count k or copy-until-end-of-input, valid UTF-8 text over all planes/boundary scalars/CR, LF, CRLF/empty lines/missing final newline/empty input, hostile fault plan: 1..n byte reads splitting multi-byte sequences, EINTR, short writes); \
         run -O0/-O1/-O2 in SimWorld, and the compiled -O0/-O1/-O2 executables plus the real binary on real pipes; output bytes must equal the closed form (identity / first k characters + NaN renderings), which is cross-checked against the reference model; \
         non-trivial = the input contains a non-ASCII character or a line break and at least one read was cut short by the plan; distinct = distinct scenario content hash"
    }
    fn runs(&self, tier: Tier) -> u64 {
        match tier {
            Tier::Quick => 12_000,
            Tier::Thorough => 300_000,
        }
    }
    fn generate(&self, rng: &mut Rng, tier: Tier) -> Scenario {
        let mut sc = Scenario::new("C14");
        sc.stdin = gen_text(rng, tier);
        let chars = String::from_utf8_lossy(&sc.stdin).chars().count();
        if rng.chance(55) {
            sc.set_knob("family", rng.range(1, 2) as i64);
            sc.set_knob("k", 0);
            sc.set_knob("heart", rng.range(2, 12) as i64);
            sc.set_knob("junk", *rng.pick(&[4i64, 5, 5, 6, 9, 40]));
            sc.set_knob("lh", rng.range(1, 4) as i64);
            sc.set_knob("ld", rng.range(1, 5) as i64);
        } else {
            sc.set_knob("family", 0);
            let k = match rng.below(4) {
                0 => rng.usize(0, 3),
                1 => chars.min(300),
                2 => (chars + rng.usize(1, 3)).min(300),
                _ => rng.usize(0, chars.min(300).max(1)),
            };
            sc.set_knob("k", k as i64);
        }
        sc.cmds = family(&sc);
        let ff = rng.below(100) < 10;
        let mut p = gen::gen_plan(rng, ff);
        if !p.fault_free() || rng.chance(80) {
            // most hostile chunking most of the time
            if rng.chance(70) {
                p.max_chunk = *rng.pick(&[1usize, 1, 2, 3, 5]);
            }
            if rng.chance(50) {
                p.bufcap = rng.usize(1, 8);
            }
        }
        sc.plan = p;
        sc
    }
    fn repair(&self, sc: &mut Scenario) -> bool {
        // the program is a function of the knobs: shrinking acts on stdin, k and the plan only
        if sc.knob("family") == 0 {
            let k = sc.cmds.len().saturating_sub(1).min(sc.knob("k") as usize);
            sc.set_knob("k", k as i64);
        }
        sc.cmds = family(sc);
        std::str::from_utf8(&sc.stdin).is_ok()
    }
    fn run(&self, sc: &Scenario) -> RunOut {
        let mut out = RunOut::default();
        let mut sc = sc.clone();
        sc.cmds = family(&sc);
        if let Err(v) = parse_checked(&sc) {
            out.violation = Some(v);
            return out;
        }
        let ex = match expected(&sc) {
            Ok(e) => e,
            Err(m) => {
                println!("HARNESS-ERROR: C14 {} (run {})", m, sc.run);
                std::process::exit(2);
            }
        };
        let text = String::from_utf8_lossy(&sc.stdin).into_owned();
        let non_ascii = text.chars().any(|c| (c as u32) > 0x7F);
        let breaks = text.contains('\n') || text.contains('\r');
        out.add("input_chars", text.chars().count() as u64);
        out.add("input_has_astral", text.chars().any(|c| (c as u32) > 0xFFFF) as u64);
        out.add("input_has_nul", text.contains('\0') as u64);
        out.add("input_has_crlf", text.contains("\r\n") as u64);
        out.add("input_empty", text.is_empty() as u64);
        out.add("input_unterminated_last_line", (!text.is_empty() && !text.ends_with('\n')) as u64);
        out.add("nan_rendering_expected", String::from_utf8_lossy(&ex.out).contains(NAN_TEXT) as u64);
        let n = sc.cmds.len() as u64;
        let chars = text.chars().count() as u64;
        let budget = 20 * chars + 200 + 2002 * n;
        let mut split = 0u64;
        for level in 0u8..=2 {
            let mut s = sc.clone();
            s.plan.key ^= (level as u64) << 20;
            let r = app_run(&s, level, budget, if level == 0 { 2 } else { 3 });
            out.absorb_world(&r.world);
            split += r.world.fired.f1_short_read;
            let tag = |c: &str| format!("O{}-{}", level, c);
            if let Ending::Panic(m) = &r.ending {
                out.violation = Some(Violation::new(&tag("panic"), "no panic", m.clone()));
                return out;
            }
            let shown = r.out_for(&ex.out);
            if shown != ex.out {
                let (e, o) = diff_msg(&ex.out, &shown);
                out.violation = Some(Violation::new(&tag("output-bytes"), e, o));
                return out;
            }
            if !r.err.is_empty() || r.ending != Ending::Return {
                out.violation = Some(Violation::new(&tag("ending"), "return(0), empty stderr", format!("{} ; stderr {:?}", r.ending.describe(), lossy(&r.err))));
                return out;
            }
        }
        out.nontrivial = (non_ascii || breaks) && split > 0;
        out.shape = (chars.min(1 << 20)) << 8 ^ (sc.knob("family") as u64) << 5 ^ (non_ascii as u64) << 1 ^ breaks as u64;
        out
    }
    fn post(&self, tier: Tier, seed: u64, stats: &mut Stats) -> Option<(Scenario, Violation)> {
        // RealWorld: compiled executables (3 levels x 5 family members) and the real binary
        let bin = match real::binary() {
            Ok(b) => b,
            Err(e) => {
                println!("HARNESS-ERROR: {}", e);
                std::process::exit(2);
            }
        };
        let mut exes: Vec<(i64, i64, u8, std::path::PathBuf)> = Vec::new();
        for (fam, k) in COMPILED_FAMILY {
            let mut sc = Scenario::new("C14");
            sc.set_knob("family", fam);
            sc.set_knob("k", k);
            sc.cmds = family(&sc);
            let parsed = match parse_checked(&sc) {
                Ok(p) => p,
                Err(v) => return Some((sc, v)),
            };
            for level in 0u8..=2 {
                let src = match emit(&parsed, level, 1_000_000) {
                    Emit::Source(s) => s,
                    Emit::OptimizeError(m) | Emit::Misbehaved(m) => {
                        sc.level = level;
                        return Some((sc, Violation::new("compiled-emit", "source text", m)));
                    }
                };
                match build_exe(&src, &format!("c14_{}_{}_{}", fam, k, level)) {
                    Ok(e) => exes.push((fam, k, level, e)),
                    Err(m) => {
                        if m.starts_with("cannot run rustc") || m.contains("cargo") {
                            println!("HARNESS-ERROR: {}", truncate(&m, 300));
                            std::process::exit(2);
                        }
                        sc.level = level;
                        return Some((sc, Violation::new("compiled-rustc", "accepted by rustc", truncate(&m, 1200))));
                    }
                }
            }
        }
        let n = match tier {
            Tier::Quick => 330,
            Tier::Thorough => 6000,
        };
        let dir = crate::sim::scratch_dir().join("c14real");
        std::fs::create_dir_all(&dir).expect("mkdir");
        let mut compiled_runs = 0u64;
        let mut binary_runs = 0u64;
        let mut binary_colour_runs = 0u64;
        let mut bad: Option<(Scenario, Violation)> = None;
        'outer: for i in 0..n {
            let mut base = make_scenario(self, seed, i, tier);
            if i % 8 == 3 {
                // long lines of multi-byte characters: the real stdin path and its buffer sizes
                let n = 700 + (simcore::mix(base.plan.key ^ 0x10E6) % 6000) as usize;
                let mut t = String::new();
                for k in 0..n {
                    let h = simcore::mix(base.plan.key ^ (k as u64) << 3);
                    t.push(if h % 7 == 0 { char::from_u32(0x1F300 + (h >> 8) as u32 % 700).unwrap_or('가') } else { char::from_u32(0xAC00 + (h >> 8) as u32 % 11172).unwrap_or('가') });
                }
                if i % 16 == 3 {
                    t.push('\n');
                }
                base.stdin = t.into_bytes();
                if base.knob("family") == 0 {
                    base.set_knob("k", (base.knob("k")).min(300));
                }
            }
            if i % 2 == 1 {
                // enumerated, not sampled: every edge character and every dictionary string at the start, at the
                // end, alone on the first line and alone on the last line
                let j = (i / 2) as usize;
                let items: Vec<String> = EDGE.iter().map(|c| char::from_u32(*c).unwrap_or('\u{FEFF}').to_string()).chain(gen::MAGIC.iter().map(|m| m.to_string())).collect();
                let m = &items[j % items.len()];
                let mut t = String::from_utf8_lossy(&base.stdin).into_owned();
                match (j / items.len()) % 4 {
                    0 => t.insert_str(0, m),
                    1 => {
                        while t.ends_with('\n') || t.ends_with('\r') {
                            t.pop();
                        }
                        t.push_str(m);
                    }
                    2 => t = format!("{}\n{}", m, t),
                    _ => {
                        if !t.is_empty() && !t.ends_with('\n') {
                            t.push('\n');
                        }
                        t.push_str(m);
                        if j % 2 == 0 {
                            t.push('\n');
                        }
                    }
                }
                base.stdin = t.into_bytes();
            }
            let chunks = real::chunks_from_plan(&base.plan, 256);
            // compiled: the input against every compiled family member at one level, all levels in rotation
            for (j, (fam, k, level, exe)) in exes.iter().enumerate() {
                if (j as u64 + i) % 3 != 0 {
                    continue;
                }
                let mut sc = base.clone();
                sc.set_knob("family", *fam);
                sc.set_knob("k", *k);
                for kk in ["heart", "junk", "lh", "ld"] {
                    sc.set_knob(kk, 0);
                }
                sc.cmds = family(&sc);
                sc.level = *level;
                sc.subcommand = "compiled".into();
                let ex = match expected(&sc) {
                    Ok(e) => e,
                    Err(m) => {
                        println!("HARNESS-ERROR: C14 {}", m);
                        std::process::exit(2);
                    }
                };
                let r = real::run(exe, &[], None, &sc.stdin, &chunks, Duration::from_secs(120)).expect("spawn");
                compiled_runs += 1;
                if r.timed_out || r.status != Some(0) || r.stdout != ex.out || !r.stderr.is_empty() {
                    let (e, o) = diff_msg(&ex.out, &r.stdout);
                    let mut v = Violation::new(&format!("compiled-O{}-output-bytes", level), format!("status 0; {}", e), format!("{}; {} ; stderr {:?}", r.describe(), o, lossy(&r.stderr)));
                    v.world = "real";
                    bad = Some((sc, v));
                    break 'outer;
                }
            }
            // the real binary (main.rs, real stdin path, real buffering)
            let mut sc = base.clone();
            sc.cmds = family(&sc);
            let level = (i % 3) as u8;
            sc.level = level;
            let ex = expected(&sc).expect("expected");
            let path = dir.join("p.hyeong");
            std::fs::write(&path, sc.source()).expect("write");
            // every fourth input with colours on: the log lines carry escape sequences, the program's text must not
            let colour = i % 4 == 3;
            sc.set_knob("colour", colour as i64);
            let args: Vec<String> = vec!["run".into(), format!("-O{}", level), "--color".into(), if colour { "always" } else { "never" }.into(), path.to_string_lossy().into_owned()];
            let r = real::run(&bin, &args, None, &sc.stdin, &chunks, Duration::from_secs(120)).expect("spawn");
            binary_runs += 1;
            binary_colour_runs += colour as u64;
            let rest = if colour { crate::props::c01::program_stdout_colour(&r.stdout, &ex.out) } else { crate::props::c01::program_stdout(&r.stdout, &ex.out) };
            if r.timed_out || r.status != Some(0) || rest != ex.out || !r.stderr.is_empty() {
                let (e, o) = diff_msg(&ex.out, &rest);
                let mut v = Violation::new(&format!("binary-O{}-output-bytes", level), format!("status 0; {}", e), format!("{}; {} ; stderr {:?}", r.describe(), o, lossy(&r.stderr)));
                v.world = "real";
                bad = Some((sc, v));
                break 'outer;
            }
        }
        for (_, _, _, e) in &exes {
            let _ = std::fs::remove_file(e);
        }
        let _ = std::fs::remove_dir_all(&dir);
        stats.extra.push(("realworld_compiled_runs".into(), J::Int(compiled_runs as i64)));
        stats.extra.push(("realworld_binary_runs".into(), J::Int(binary_runs as i64)));
        stats.extra.push(("realworld_binary_runs_with_colour_always".into(), J::Int(binary_colour_runs as i64)));
        stats.extra.push(("compiled_executables".into(), J::Int(exes.len() as i64)));
        stats.extra.push((
            "realworld_note".into(),
            J::str("compiled -O0/-O1/-O2 executables of copy-1, copy-7, copy-40 and the two copy-until-EOF programs (rustc against the number-only build) and the release binary, stdin through a real pipe in planned write sizes; kernel interleaving not controlled"),
        ));
        bad
    }
    fn replay_real(&self, sc: &Scenario) -> Option<Violation> {
        // one RealWorld case: a compiled family member (subcommand "compiled") or the release binary
        let mut sc = sc.clone();
        sc.cmds = family(&sc);
        let ex = match expected(&sc) {
            Ok(e) => e,
            Err(m) => {
                println!("HARNESS-ERROR: C14 {}", m);
                std::process::exit(2);
            }
        };
        let chunks = real::chunks_from_plan(&sc.plan, 256);
        let level = sc.level;
        if sc.subcommand == "compiled" {
            let parsed = parse_checked(&sc).ok()?;
            let src = match emit(&parsed, level, 1_000_000) {
                Emit::Source(s) => s,
                Emit::OptimizeError(m) | Emit::Misbehaved(m) => return Some(Violation::new("compiled-emit", "source text", m)),
            };
            let exe = match build_exe(&src, "c14_replay") {
                Ok(e) => e,
                Err(m) => return Some(Violation::new("compiled-rustc", "accepted by rustc", truncate(&m, 1200))),
            };
            let r = real::run(&exe, &[], None, &sc.stdin, &chunks, Duration::from_secs(120)).expect("spawn");
            let _ = std::fs::remove_file(&exe);
            if r.timed_out || r.status != Some(0) || r.stdout != ex.out || !r.stderr.is_empty() {
                let (e, o) = diff_msg(&ex.out, &r.stdout);
                let mut v = Violation::new(&format!("compiled-O{}-output-bytes", level), format!("status 0; {}", e), format!("{}; {} ; stderr {:?}", r.describe(), o, lossy(&r.stderr)));
                v.world = "real";
                return Some(v);
            }
            None
        } else {
            let r = crate::props::c01::real_run(&sc, level, "c14real");
            let rest = if sc.knob("colour") == 1 { crate::props::c01::program_stdout_colour(&r.stdout, &ex.out) } else { crate::props::c01::program_stdout(&r.stdout, &ex.out) };
            if r.timed_out || r.status != Some(0) || rest != ex.out || !r.stderr.is_empty() {
                let (e, o) = diff_msg(&ex.out, &rest);
                let mut v = Violation::new(&format!("binary-O{}-output-bytes", level), format!("status 0; {}", e), format!("{}; {} ; stderr {:?}", r.describe(), o, lossy(&r.stderr)));
                v.world = "real";
                return Some(v);
            }
            None
        }
    }
    fn components(&self) -> J {
        J::obj()
            .set("real", J::str("SimWorld: app::run::run -O0/1/2 with the real stdin line reader behind the hook (std BufReader/read_line over the simulated descriptor), pop_stack_wrap line refill, num_to_unicode, write path; RealWorld: compiled executables (emitted Stack::pop/push prelude, std stdin/print!) and the release binary"))
            .set("stubbed", J::str("SimWorld: termcolor sinks, stdin descriptor, process::exit hook"))
            .set("oracle", J::str("closed form (identity / first k characters + NaN renderings) cross-checked against the reference model; disagreement between the two is a harness error"))
    }
    fn assumptions(&self) -> Vec<String> {
        vec![
            "program family: copy exactly k characters, two copy-until-end-of-input programs parametrised by heart, junk stack and the label command's syllable/dot counts; the reverse-each-line member of the planned family is not built (DESIGN Appendix E)".into(),
            "inputs up to 12k characters (quick) / 100k characters (thorough)".into(),
        ]
    }
}
