//! C01 — the interpreter executes every program according to the language definition.

use crate::gen::{self, Flavor};
use crate::json::J;
use crate::reflang::{self, probe, Cmd, End, Halt, Machine};
use crate::refnum::Rat;
use crate::rng::Rng;
use crate::runner::{truncate, Property, RunOut, Tier, Violation};
use crate::scenario::Scenario;
use crate::sim::{self, Ending};
use hyeong::core::code::{Code, UnOptCode};
use hyeong::core::state::{State, UnOptState};
use hyeong::core::{execute, parse};
use hyeong::number::num::Num;
use std::collections::BTreeMap;

pub struct C01;

/// Parse the canonical spelling with the real parser and check it is the command list.
pub fn parse_checked(sc: &Scenario) -> Result<Vec<UnOptCode>, Violation> {
    let src = sc.source();
    let parsed = parse::parse(src);
    check_parsed(&sc.cmds, &parsed)?;
    Ok(parsed)
}

pub fn check_parsed(cmds: &[Cmd], parsed: &[UnOptCode]) -> Result<(), Violation> {
    if parsed.len() != cmds.len() {
        return Err(Violation::new(
            "parse",
            format!("{} commands", cmds.len()),
            format!("{} commands", parsed.len()),
        ));
    }
    for (i, (c, p)) in cmds.iter().zip(parsed.iter()).enumerate() {
        let ok = p.get_type() == c.kind
            && p.get_hangul_count() == c.h
            && p.get_dot_count() == c.d
            && format!("{:?}", p.get_area()) == c.area.prefix_string();
        if !ok {
            return Err(Violation::new(
                "parse",
                format!("command {}: kind {} h {} d {} area {}", i, c.kind, c.h, c.d, c.area.prefix_string()),
                format!(
                    "command {}: kind {} h {} d {} area {:?}",
                    i,
                    p.get_type(),
                    p.get_hangul_count(),
                    p.get_dot_count(),
                    p.get_area()
                ),
            ));
        }
    }
    Ok(())
}

/// Incremental comparison of the real stacks with the model's (see DESIGN C01):
/// an element is rendered with `Display` the first time it is seen at its position;
/// afterwards structural equality with the already verified value is enough.
#[derive(Default)]
pub struct StackCache {
    verified: BTreeMap<usize, Vec<(Num, Rat)>>,
}

impl StackCache {
    pub fn compare<S: State>(&mut self, st: &mut S, m: &Machine, only: Option<&[usize]>) -> Result<(), (String, String)> {
        let real_idx = st.get_all_stack_index();
        let mut idx: Vec<usize> = match only {
            Some(o) => o.to_vec(),
            None => {
                let mut v = real_idx.clone();
                v.extend(m.stacks.keys().copied());
                v
            }
        };
        idx.sort_unstable();
        idx.dedup();
        let empty: Vec<Rat> = Vec::new();
        let mut none: Vec<Num> = Vec::new();
        for i in idx {
            // never create a stack in the real state by looking at it
            let real: &mut Vec<Num> = if real_idx.contains(&i) { st.get_stack(i) } else { &mut none };
            let model = m.stacks.get(&i).unwrap_or(&empty);
            if real.len() != model.len() {
                return Err((
                    format!("stack {}: {:?}", i, model.iter().map(|x| x.text()).collect::<Vec<_>>()),
                    format!("stack {}: {:?}", i, real),
                ));
            }
            let cache = self.verified.entry(i).or_default();
            cache.truncate(real.len());
            for j in 0..real.len() {
                let hit = j < cache.len()
                    && cache[j].0 == real[j]
                    && cache[j].0.is_pos() == real[j].is_pos()
                    && cache[j].1 == model[j];
                if hit {
                    continue;
                }
                let rt = real[j].to_string();
                let mt = model[j].text();
                if rt != mt {
                    return Err((
                        format!("stack {}[{}] = {} (stack: {:?})", i, j, mt, model.iter().map(|x| x.text()).collect::<Vec<_>>()),
                        format!("stack {}[{}] = {} (stack: {:?})", i, j, rt, real),
                    ));
                }
                if j < cache.len() {
                    cache[j] = (real[j].clone(), model[j].clone());
                } else {
                    cache.push((real[j].clone(), model[j].clone()));
                }
            }
        }
        Ok(())
    }
}

fn lossy(b: &[u8]) -> String {
    truncate(&String::from_utf8_lossy(b), 400)
}

/// Lock-step layer: real `execute_one` against the model, command by command.
pub fn lockstep(sc: &Scenario, out: &mut RunOut) -> Option<Violation> {
    let parsed = match parse_checked(sc) {
        Ok(p) => p,
        Err(v) => return Some(v),
    };
    let cmds = &sc.cmds;
    if cmds.is_empty() {
        return None;
    }
    let mut plan = sc.plan.clone();
    plan.tick_budget = 0;
    let stdin = sc.stdin.clone();
    let mut result: Option<Violation> = None;
    let mut probes = [0u64; probe::N];
    let mut steps_done = 0u64;
    let mut ended: Option<End> = None;
    let (ending, _, world) = sim::run_process(plan, stdin.clone(), || {
        let mut state = UnOptState::new();
        for c in &parsed {
            state.push_code(c.clone());
        }
        let mut m = Machine::new();
        let mut cache = StackCache::default();
        let mut rd = sim::Reader;
        let mut so = sim::Sink(1);
        let mut se = sim::Sink(2);
        let mut loc = 0usize;
        let mut state = Some(state);
        loop {
            if m.steps >= sc.budget {
                break;
            }
            let pc = m.pc;
            let sel0 = m.sel;
            let r = m.step(cmds, &stdin);
            if m.max_bits > sc.cap_bits || m.live > 200_000 {
                break;
            }
            if let Err(End::Unspecified(_)) = r {
                break;
            }
            // the real step
            let st = state.take().unwrap();
            let rr = std::panic::catch_unwind(std::panic::AssertUnwindSafe(|| {
                execute::execute_one(&mut rd, &mut so, &mut se, st, loc)
            }));
            let (wo, we) = simcore::with(|w| (w.out.clone(), w.err.clone()));
            let ctx = |what: &str| format!("step {} (command {}: {}) {}", m.steps, pc, cmds[pc].short(), what);
            if wo != m.out {
                result = Some(Violation::new("stdout-so-far", ctx(&lossy(&m.out)), lossy(&wo)));
                break;
            }
            if we != m.err {
                result = Some(Violation::new("stderr-so-far", ctx(&lossy(&m.err)), lossy(&we)));
                break;
            }
            match (&r, rr) {
                (Ok(()), Ok(Ok((mut ns, nloc)))) => {
                    if nloc != m.pc {
                        result = Some(Violation::new("next-command", ctx(&format!("next = {}", m.pc)), format!("next = {}", nloc)));
                        break;
                    }
                    if ns.current_stack() != m.sel {
                        result = Some(Violation::new(
                            "selected-stack",
                            ctx(&format!("selected = {}", m.sel)),
                            format!("selected = {}", ns.current_stack()),
                        ));
                        break;
                    }
                    let full = m.live <= 64 || m.steps % 16 == 0 || m.pc >= cmds.len();
                    let touched = [0usize, cmds[pc].d, m.sel, sel0];
                    let cmp = if full { cache.compare(&mut ns, &m, None) } else { cache.compare(&mut ns, &m, Some(&touched)) };
                    if let Err((e, o)) = cmp {
                        result = Some(Violation::new("stack-contents", ctx(&e), o));
                        break;
                    }
                    loc = nloc;
                    state = Some(ns);
                    steps_done = m.steps;
                    if m.pc >= cmds.len() {
                        ended = Some(End::End);
                        break;
                    }
                }
                (Err(End::Exit(c)), Err(payload)) => {
                    let got = payload.downcast_ref::<simcore::SimExit>().map(|e| e.0);
                    if got != Some(*c) {
                        let site = simcore::with(|w| w.exit);
                        result = Some(Violation::new("ending", ctx(&format!("exit({})", c)), format!("unwound with {:?} at {:?}", got, site)));
                    }
                    ended = Some(End::Exit(*c));
                    break;
                }
                (Err(End::Encoding(n)), Ok(Err(_e))) => {
                    ended = Some(End::Encoding(*n));
                    break;
                }
                (Err(End::InputEncoding), Ok(Err(_e))) => {
                    ended = Some(End::InputEncoding);
                    break;
                }
                (exp, got) => {
                    let g = match got {
                        Ok(Ok((_, l))) => format!("step completed, next = {}", l),
                        Ok(Err(e)) => format!("error returned: {}", e.get_msg()),
                        Err(p) => {
                            if let Some(e) = p.downcast_ref::<simcore::SimExit>() {
                                format!("exit({})", e.0)
                            } else {
                                // re-raise real panics so that run_process classifies them
                                std::panic::resume_unwind(p);
                            }
                        }
                    };
                    result = Some(Violation::new("ending", ctx(&format!("{:?}", exp)), g));
                    break;
                }
            }
        }
        probes = m.probes;
    });
    out.absorb_world(&world);
    if let Ending::Panic(msg) = &ending {
        return Some(Violation::new("panic", "no panic", msg.clone()));
    }
    for (i, n) in probe::NAMES.iter().enumerate() {
        out.add(n, probes[i]);
    }
    out.add("lockstep_steps", steps_done);
    match &ended {
        Some(End::End) => out.add("end_normal", 1),
        Some(End::Exit(_)) => out.add("end_program_exit", 1),
        Some(End::Encoding(_)) => out.add("end_encoding_error", 1),
        _ => out.add("end_bounded", 1),
    }
    let interesting = probes[probe::OUT_CHAR] + probes[probe::OUT_NEG] + probes[probe::OUT_NAN] + probes[probe::ERR_WRITE] > 0
        || probes[probe::Q_LEFT] + probes[probe::Q_RIGHT] + probes[probe::B_LEFT] + probes[probe::B_RIGHT] > 0
        || probes[probe::JUMP] + probes[probe::HEART_RETURN] > 0
        || probes[probe::READ_LINE] + probes[probe::READ_EOF] > 0
        || matches!(ended, Some(End::Exit(_)));
    out.nontrivial = steps_done >= 3 && interesting;
    out.shape = shape_of(&probes, &ended);
    result
}

pub fn shape_of(probes: &[u64; probe::N], ended: &Option<End>) -> u64 {
    // abstract shape: which probes fired (bucketed) and how the run ended
    let mut h = 0xcbf2_9ce4_8422_2325u64;
    for p in probes.iter() {
        let b = match *p {
            0 => 0u64,
            1 => 1,
            2..=4 => 2,
            5..=20 => 3,
            _ => 4,
        };
        h = (h ^ b).wrapping_mul(0x0000_0100_0000_01B3);
    }
    let e = match ended {
        None => 0u64,
        Some(End::End) => 1,
        Some(End::Exit(c)) => 2 + *c as u64,
        Some(End::Encoding(_)) => 4,
        Some(End::InputEncoding) => 5,
        Some(End::Unspecified(_)) => 6,
    };
    (h ^ e).wrapping_mul(0x0000_0100_0000_01B3)
}

/// What an application-level run is expected to look like.
pub struct Expect {
    pub out: Vec<u8>,
    pub err: Vec<u8>,
    pub halt: Halt,
    pub safe_steps: u64,
    pub probes: [u64; probe::N],
}

pub fn expect_of(sc: &Scenario) -> Expect {
    let p = reflang::preflight(&sc.cmds, &sc.stdin, sc.budget, sc.cap_bits, false);
    Expect { out: p.m.out.clone(), err: p.m.err.clone(), halt: p.halt, safe_steps: p.safe_steps, probes: p.m.probes }
}

pub struct AppRun {
    /// everything on stdout, log lines included
    pub full: Vec<u8>,
    pub ending: Ending,
    /// stdout after the header lines
    pub out: Vec<u8>,
    pub header: Vec<String>,
    pub err: Vec<u8>,
    pub world: simcore::World,
}

/// Run `hyeong run -O<level> <file>` in SimWorld exactly as `main` wires it.
pub fn app_run(sc: &Scenario, level: u8, tick_budget: u64, header_lines: usize) -> AppRun {
    let dir = sim::scratch_dir();
    let path = dir.join(&sc.file_name);
    std::fs::write(&path, sc.file_content()).expect("write program file");
    let mut plan = sc.plan.clone();
    plan.tick_budget = tick_budget;
    let (ending, _, world) = sim::run_process(plan, sc.stdin.clone(), || {
        use hyeong::util::option::HyeongOption;
        use termcolor::{ColorChoice, StandardStream};
        let mut stdout = StandardStream::stdout(ColorChoice::Never);
        let mut stderr = StandardStream::stderr(ColorChoice::Never);
        let mut stderr_copy = StandardStream::stderr(ColorChoice::Never);
        let opt = HyeongOption::new().color(ColorChoice::Never).input(path.clone()).optimize(level);
        let r = hyeong::app::run::run(&mut stdout, &mut stderr_copy, &opt);
        hyeong::util::io::handle(&mut stderr, r)
    });
    let _ = std::fs::remove_file(&path);
    let (header, rest) = split_header(&world.out, header_lines);
    AppRun { full: world.out.clone(), ending, out: rest, header, err: world.err.clone(), world }
}

/// Split off the tool's own leading log lines (complete lines carrying the `==> ` marker); how many
/// there are is the tool's business, what follows is the program's standard output.
pub fn split_header(out: &[u8], _n: usize) -> (Vec<String>, Vec<u8>) {
    let mut pos = 0usize;
    let mut header = Vec::new();
    while out[pos..].starts_with(b"==> ") {
        match out[pos..].iter().position(|&b| b == b'\n') {
            Some(e) => {
                header.push(String::from_utf8_lossy(&out[pos..pos + e]).into_owned());
                pos += e + 1;
            }
            None => break,
        }
    }
    (header, out[pos..].to_vec())
}

/// The program's stdout when the expected text is known: the tool's log lines are leading `==> ` lines, but
/// a program may itself start its output with such a line; among the possible split points the one that
/// makes the rest equal to (or, failing that, start like) the expectation is taken, otherwise all leading
/// marker lines are dropped.
pub fn program_stdout(full: &[u8], expected: &[u8]) -> Vec<u8> {
    program_stdout_mode(full, expected, false)
}

/// Length of the SGR escape sequences (`ESC [ ... m`) a text starts with.
fn sgr_prefix(t: &[u8]) -> usize {
    let mut p = 0usize;
    while t[p..].starts_with(b"\x1b[") {
        match t[p + 2..].iter().position(|&b| !(b.is_ascii_digit() || b == b';')) {
            Some(e) if t[p + 2 + e] == b'm' => p += 2 + e + 1,
            _ => break,
        }
    }
    p
}

/// Is this the start of a log line: `==> `, in colour mode with SGR sequences before and inside the marker.
fn log_line_start(t: &[u8], colour: bool) -> bool {
    if !colour {
        return t.starts_with(b"==> ");
    }
    let mut p = sgr_prefix(t);
    if !t[p..].starts_with(b"==>") {
        return false;
    }
    p += 3;
    p += sgr_prefix(&t[p..]);
    t[p..].starts_with(b" ")
}

/// The same split for runs with `--color always`: log lines carry SGR sequences; everything after the
/// line break that ends the last log line is the program's.
pub fn program_stdout_colour(full: &[u8], expected: &[u8]) -> Vec<u8> {
    program_stdout_mode(full, expected, true)
}

fn program_stdout_mode(full: &[u8], expected: &[u8], colour: bool) -> Vec<u8> {
    let mut cuts = vec![0usize];
    let mut pos = 0usize;
    while log_line_start(&full[pos..], colour) {
        match full[pos..].iter().position(|&b| b == b'\n') {
            Some(e) => {
                pos += e + 1;
                cuts.push(pos);
            }
            None => break,
        }
    }
    // at least one log line belongs to the tool if there is any
    let from = if cuts.len() > 1 { 1 } else { 0 };
    for &c in cuts[from..].iter() {
        if &full[c..] == expected {
            return full[c..].to_vec();
        }
    }
    for &c in cuts[from..].iter().rev() {
        if expected.starts_with(&full[c..]) && !full[c..].is_empty() {
            return full[c..].to_vec();
        }
    }
    full[*cuts.last().unwrap()..].to_vec()
}

impl AppRun {
    pub fn out_for(&self, expected: &[u8]) -> Vec<u8> {
        program_stdout(&self.full, expected)
    }
}

/// stderr minus the trailing diagnostic lines ([error]/[note] markers)
pub fn split_diagnostic(err: &[u8], model_err: &[u8]) -> Option<String> {
    if !err.starts_with(model_err) {
        return None;
    }
    let tail = String::from_utf8_lossy(&err[model_err.len()..]).into_owned();
    if !tail.starts_with("[error] ") || !tail.ends_with('\n') {
        return None;
    }
    for l in tail.lines() {
        if !(l.starts_with("[error] ") || l.starts_with("[note] ")) {
            return None;
        }
    }
    Some(tail)
}

pub fn app_layer(sc: &Scenario, out: &mut RunOut) -> Option<Violation> {
    if let Err(v) = parse_checked(sc) {
        return Some(v);
    }
    let ex = expect_of(sc);
    if let Halt::Ended(End::Unspecified(_)) = ex.halt {
        // stop right before the unspecified step
    }
    let budget = match &ex.halt {
        Halt::Ended(End::Unspecified(_)) | Halt::Cap | Halt::Budget | Halt::Memory => ex.safe_steps.max(1),
        Halt::Ended(_) => ex.safe_steps + 50,
    };
    if ex.safe_steps == 0 && !matches!(ex.halt, Halt::Ended(End::End) | Halt::Ended(End::Exit(_)) | Halt::Ended(End::Encoding(_))) {
        out.skipped = Some("nothing safely executable");
        return None;
    }
    let r = app_run(sc, 0, budget, 2);
    out.absorb_world(&r.world);
    for (i, n) in probe::NAMES.iter().enumerate() {
        out.add(n, ex.probes[i]);
    }
    out.add("app_runs", 1);
    out.nontrivial = ex.safe_steps >= 3 && (!ex.out.is_empty() || !ex.err.is_empty() || matches!(ex.halt, Halt::Ended(End::Exit(_))));
    out.shape = shape_of(&ex.probes, &None) ^ 0x5555;
    if let Ending::Panic(m) = &r.ending {
        return Some(Violation::new("panic", "no panic", m.clone()));
    }
    let shown = r.out_for(&ex.out);
    if shown != ex.out {
        return Some(Violation::new("app-stdout", lossy(&ex.out), lossy(&shown)));
    }
    let want: String;
    let ok = match &ex.halt {
        Halt::Ended(End::End) => {
            want = "return".into();
            r.err == ex.err && r.ending == Ending::Return
        }
        Halt::Ended(End::Exit(c)) => {
            want = format!("exit({})", c);
            r.err == ex.err && r.ending == Ending::Exit { site: "pop_stack_wrap", code: *c }
        }
        Halt::Ended(End::Encoding(_)) | Halt::Ended(End::InputEncoding) => {
            want = "diagnostic + exit(1)".into();
            split_diagnostic(&r.err, &ex.err).is_some() && r.ending == Ending::Exit { site: "print_error", code: 1 }
        }
        _ => {
            want = "still running at the step bound".into();
            r.err == ex.err && r.ending == Ending::Stop
        }
    };
    if !ok {
        return Some(Violation::new(
            "app-ending",
            format!("{} ; stderr {:?}", want, lossy(&ex.err)),
            format!("{} ; stderr {:?}", r.ending.describe(), lossy(&r.err)),
        ));
    }
    None
}

/// RealWorld: `hyeong run -O<level> --color never FILE` (release binary, guard off).
pub fn real_run(sc: &Scenario, level: u8, tag: &str) -> crate::real::RealOut {
    let bin = match crate::real::binary() {
        Ok(b) => b,
        Err(e) => {
            println!("HARNESS-ERROR: {}", e);
            std::process::exit(2);
        }
    };
    let dir = sim::scratch_dir().join(tag);
    std::fs::create_dir_all(&dir).expect("mkdir");
    let path = dir.join(&sc.file_name);
    std::fs::write(&path, sc.file_content()).expect("write");
    let colour = if sc.knob("colour") == 1 { "always" } else { "never" };
    let args: Vec<String> = vec!["run".into(), format!("-O{}", level), "--color".into(), colour.into(), path.to_string_lossy().into_owned()];
    let chunks = crate::real::chunks_from_plan(&sc.plan, 64);
    let r = crate::real::run(&bin, &args, None, &sc.stdin, &chunks, std::time::Duration::from_secs(60)).expect("spawn");
    let _ = std::fs::remove_file(&path);
    r
}

/// Compare a real run with the model's expectation (terminating programs only).
pub fn real_against_model(sc: &Scenario, ex: &Expect, level: u8, r: &crate::real::RealOut) -> Option<Violation> {
    let tag = |c: &str| format!("real-O{}-{}", level, c);
    let header: Vec<String> = Vec::new();
    let rest = program_stdout(&r.stdout, &ex.out);
    let obs = || format!("{} ; stdout {:?} ; stderr {:?}", r.describe(), lossy(&rest), lossy(&r.stderr));
    if r.timed_out || r.signal.is_some() || r.status == Some(101) {
        return Some(Violation::new(&tag("crash"), "defined ending", obs()));
    }
    let _ = (sc, header);
    match &ex.halt {
        Halt::Ended(End::End) | Halt::Ended(End::Exit(_)) => {
            let want = if let Halt::Ended(End::Exit(c)) = &ex.halt { *c } else { 0 };
            if r.status != Some(want) || rest != ex.out || r.stderr != ex.err {
                return Some(Violation::new(&tag("output"), format!("status {} ; stdout {:?} ; stderr {:?}", want, lossy(&ex.out), lossy(&ex.err)), obs()));
            }
        }
        Halt::Ended(End::Encoding(_)) => {
            let ok = r.status == Some(1) && ex.out.starts_with(&rest) && crate::props::c02::strip_diag(&r.stderr).map_or(false, |(b, _)| ex.err.starts_with(&b));
            if !ok {
                return Some(Violation::new(&tag("error-ending"), format!("status 1 after a diagnostic ; stdout prefix of {:?}", lossy(&ex.out)), obs()));
            }
        }
        _ => {}
    }
    None
}

impl C01 {
    pub fn real_case(&self, sc: &Scenario) -> Option<Violation> {
        let ex = expect_of(sc);
        let r = real_run(sc, 0, "c01real");
        real_against_model(sc, &ex, 0, &r).map(|mut v| {
            v.world = "real";
            v
        })
    }
}

impl Property for C01 {
    fn id(&self) -> &'static str {
        "C01"
    }
    fn level(&self) -> &'static str {
        "exploration"
    }
    fn rule(&self) -> &'static str {
        "scenario = (command list rendered canonically, stdin text, fault plan) drawn from sub-seed(VERIF_SEED, C01, run); \
         lock-step layer compares every stack, selected stack, stdout, stderr and next command after each command with the reference model, \
         application layer compares run -O0 in SimWorld; non-trivial = at least 3 commands executed and at least one of \
         {output written, branch decided, jump taken, input read, exit requested}; distinct = distinct scenario content hash"
    }
    fn runs(&self, tier: Tier) -> u64 {
        match tier {
            Tier::Quick => 200_000,
            Tier::Thorough => 2_000_000,
        }
    }
    fn generate(&self, rng: &mut Rng, tier: Tier) -> Scenario {
        let mut sc = Scenario::new("C01");
        let sw = gen::swarm(rng, Flavor::General);
        let max_cmds = match tier {
            Tier::Quick => 16,
            Tier::Thorough => {
                if rng.chance(30) {
                    40
                } else {
                    16
                }
            }
        };
        sc.cmds = gen::gen_program(rng, &sw, Flavor::General, max_cmds);
        if rng.chance(20) {
            gen::optimizer_hazard(rng, &mut sc.cmds);
        }
        if rng.chance(25) {
            gen::reader_template(rng, &mut sc.cmds);
        }
        if rng.chance(4) {
            gen::magic_output(rng, &mut sc.cmds);
        }
        if rng.chance(8) {
            sc.cmds = gen::limb_grid(rng);
            sc.set_knob("arith", 2);
        }
        if rng.chance(6) {
            // values that are not scalar values, astral characters
            let v = *rng.pick(&[0xD800usize, 0xDFFE, 0x110000, 0x1F600, 0x10FFFF, 0xFFFF, 0x10000, 0xD7FF, 0xE000, 0xDFFF, 0x10FFFE, 0x7F, 0x80, 0x7FF, 0x800]);
            let (h, d) = gen::factor_pair(v);
            let pos = rng.usize(0, sc.cmds.len());
            sc.cmds.insert(pos, crate::reflang::Cmd::new(0, h, d, crate::reflang::RArea::Nil));
            if rng.chance(50) {
                // and write it while stack 3 is selected (most programs are still there at this point)
                sc.cmds.insert(pos + 1, crate::reflang::Cmd::new(1, 1, rng.usize(1, 2), crate::reflang::RArea::Nil));
            }
        }
        if rng.chance(15) {
            gen::arith_template(rng, &mut sc.cmds);
            sc.set_knob("arith", 1);
        }
        if rng.chance(8) {
            sc.cmds = gen::goto_machine(rng, false);
        }
        if rng.chance(3) {
            // large counts: hundreds of syllables times hundreds of dots, also as a label / comparison count
            let h = rng.usize(150, 1500);
            let d = rng.usize(150, 1500);
            let heart = rng.range(2, 12) as u8;
            let area = match rng.below(3) {
                0 => crate::reflang::RArea::Nil,
                1 => crate::reflang::RArea::Leaf(heart),
                _ => crate::reflang::RArea::Node(rng.below(2) as u8, Box::new(crate::reflang::RArea::Leaf(heart)), Box::new(crate::reflang::RArea::Nil)),
            };
            let pos = rng.usize(0, sc.cmds.len());
            sc.cmds.insert(pos, crate::reflang::Cmd::new(*rng.pick(&[0u8, 0, 1, 5]), h, d, area.clone()));
            if rng.chance(60) {
                let pos2 = rng.usize(0, sc.cmds.len());
                sc.cmds.insert(pos2, crate::reflang::Cmd::new(0, h, d, area));
            }
        }
        sc.stdin = gen::gen_stdin(rng, 60);
        let fault_free = rng.chance(40);
        sc.plan = gen::gen_plan(rng, fault_free);
        sc.budget = match tier {
            Tier::Quick => *rng.pick(&[60u64, 200, 400]),
            Tier::Thorough => *rng.pick(&[60u64, 400, 400, 2000, 5000]),
        };
        sc.cap_bits = if sc.knob("arith") == 2 { 640 } else if rng.chance(2) { 1024 } else if rng.chance(30) || sc.knob("arith") == 1 { 192 } else { 96 };
        if sc.cap_bits > 192 {
            // BigNum division is bit-by-bit: ~0.2 s per operation at 700 bits
            sc.budget = sc.budget.min(60);
        } else if sc.cap_bits > 96 {
            // ~1 ms per gcd at 2 x 192 bits: long runs only with small values
            sc.budget = sc.budget.min(400);
        }
        sc.set_knob("app", if rng.chance(25) { 1 } else { 0 });
        if rng.chance(20) {
            sc.set_knob("layout", 1);
        }
        sc
    }
    fn run(&self, sc: &Scenario) -> RunOut {
        let mut out = RunOut::default();
        out.violation = if sc.knob("app") == 1 { app_layer(sc, &mut out) } else { lockstep(sc, &mut out) };
        out
    }
    fn post(&self, tier: Tier, seed: u64, stats: &mut crate::runner::Stats) -> Option<(Scenario, Violation)> {
        // binary layer: a slice of the scenarios through the release binary
        let n = match tier {
            Tier::Quick => 400,
            Tier::Thorough => 40_000,
        };
        let (spawned, bad) = crate::runner::par_find(n, |i| {
            let sc = crate::runner::make_scenario(self, seed, i, tier);
            if parse_checked(&sc).is_err() || sc.cap_bits > 192 {
                return (0, None);
            }
            let ex = expect_of(&sc);
            if !matches!(ex.halt, Halt::Ended(End::End) | Halt::Ended(End::Exit(_)) | Halt::Ended(End::Encoding(_))) {
                return (0, None);
            }
            match self.real_case(&sc) {
                Some(v) => (1, Some((sc, v))),
                None => (1, None),
            }
        });
        if bad.is_some() {
            return bad;
        }
        stats.extra.push(("realworld_spawns".into(), J::Int(spawned as i64)));
        stats.extra.push(("realworld_note".into(), J::str("release binary `hyeong run -O0 --color never FILE` (main.rs, clap, real stdin path, real termcolor/std buffering) on terminating scenarios; stdin through a real pipe in planned write sizes; kernel interleaving not controlled")));
        None
    }
    fn replay_real(&self, sc: &Scenario) -> Option<Violation> {
        self.real_case(sc)
    }
    fn components(&self) -> J {
        J::obj()
            .set("real", J::str("parse::parse, execute::execute_one/execute, UnOptState, area::calc, number::{num,big_number}, util::{io,ext,error}, app::run::run + io::handle (application layer), std BufReader/read_line/write_all"))
            .set("stubbed", J::str("termcolor (simulated sinks), kernel pipe/tty (SimPipe), process::exit (hook -> unwind); main.rs/clap runs only in the RealWorld slice"))
            .set("oracle", J::str("refnum + reflang reference model (independent implementation)"))
    }
    fn assumptions(&self) -> Vec<String> {
        vec![
            "reference model (harness/src/reflang.rs, refnum.rs) is the language definition; refnum validated against Python int/Fraction by selftest-refnum".into(),
            "values capped at 96/192/1024 bits and runs at 60..5000 steps: BigNum division is too slow beyond".into(),
            "programs are written in canonical spelling; what arbitrary text parses to is C04 (not claimed)".into(),
        ]
    }
}
