//! C10 — optimising a program never performs the program's effects and always finishes.

use crate::gen::{self, Flavor};
use crate::json::J;
use crate::props::c01::parse_checked;
use crate::reflang::{self, probe, End, Halt};
use crate::rng::Rng;
use crate::runner::{truncate, Property, RunOut, Tier, Violation};
use crate::scenario::Scenario;
use crate::sim::{self, Ending};

pub struct C10;

pub const SENTINEL: &str = "sentinel-line-1 ⓢ\nsentinel-line-2\n12345\n";

pub fn tick_bound(n: u64) -> u64 {
    2000 * n * n + n + 10
}

impl C10 {
    /// The probe executable on one program, levels 0..2 (or only `sc.level` when replaying a violation).
    pub fn real_case(&self, sc: &Scenario) -> (u64, Option<Violation>) {
        let probe_exe = match crate::real::optprobe() {
            Ok(p) => p,
            Err(e) => {
                println!("HARNESS-ERROR: {}", e);
                std::process::exit(2);
            }
        };
        if parse_checked(sc).is_err() {
            return (0, None);
        }
        let nn = sc.cmds.len() as u64;
        let window = (101 * nn * nn + nn + 10).min(80_000);
        let pf = reflang::preflight(&sc.cmds, &sc.stdin, window, sc.cap_bits, false);
        // writing a value of 2^32 or more: what is written is unspecified, but optimising such a program is not
        let unspecified_output = sc.knob("output_edge") == 1 && matches!(&pf.halt, Halt::Ended(End::Unspecified(m)) if m.starts_with("output value"));
        if matches!(pf.halt, Halt::Cap | Halt::Memory) || (matches!(pf.halt, Halt::Ended(End::Unspecified(_))) && !unspecified_output) {
            return (0, None);
        }
        let model_encoding = matches!(pf.halt, Halt::Ended(End::Encoding(_))) || unspecified_output;
        let dir = sim::scratch_dir().join("c10real");
        std::fs::create_dir_all(&dir).expect("mkdir");
        let prog = dir.join("p.hyeong");
        let sent = dir.join("sentinel.txt");
        std::fs::write(&prog, sc.file_content()).expect("write");
        std::fs::write(&sent, SENTINEL).expect("write");
        let mut c = 0u64;
        for level in 0u8..=2 {
            let args = vec![prog.to_string_lossy().into_owned(), level.to_string()];
            let (r, consumed) = crate::real::run_stdin_file(&probe_exe, &args, &sent, std::time::Duration::from_secs(60)).expect("spawn");
            c += 1;
            let so = String::from_utf8_lossy(&r.stdout).into_owned();
            let marker_ok = (so.starts_with("DONE ok ") && so.ends_with('\n') && so.lines().count() == 1) || (so == "DONE err\n" && model_encoding && level == 2);
            if r.timed_out || r.status != Some(0) || consumed != 0 || !marker_ok || !r.stderr.is_empty() {
                let mut v = Violation::new(
                    &format!("real-O{}-effects", level),
                    "completion marker only, stdin sentinel fully unread, empty stderr, status 0",
                    format!("{} ; {} bytes of stdin consumed ; stdout {:?} ; stderr {:?}", r.describe(), consumed, truncate(&so, 200), truncate(&String::from_utf8_lossy(&r.stderr), 200)),
                );
                v.world = "real";
                return (c, Some(v));
            }
        }
        (c, None)
    }
}

impl Property for C10 {
    fn id(&self) -> &'static str {
        "C10"
    }
    fn level(&self) -> &'static str {
        "exploration"
    }
    fn rule(&self) -> &'static str {
        "scenario = command list biased to I/O-stack selections followed by pops and to small-valued infinite loops; optimize::optimize(code, level) is called for level 0,1,2 as one simulated process each, \
         with a sentinel on simulated stdin; invariants over the event log: no read, no exit, no byte on stdout/stderr, returns, opt_execute steps <= 2000*n^2+n+10; \
         non-trivial = the program selects stack 0, 1 or 2 and pops afterwards, or takes a backward jump; distinct = distinct program text"
    }
    fn runs(&self, tier: Tier) -> u64 {
        match tier {
            Tier::Quick => 450_000,
            Tier::Thorough => 8_000_000,
        }
    }
    fn generate(&self, rng: &mut Rng, tier: Tier) -> Scenario {
        let mut sc = Scenario::new("C10");
        let mut sw = gen::swarm(rng, Flavor::Optimizer);
        // this property is about I/O stacks: make selecting them likely
        for i in 0..3 {
            if rng.chance(60) {
                sw.allow_select_io[i] = true;
            }
        }
        if rng.chance(50) {
            sw.kind_w[5] = sw.kind_w[5].max(4);
            for s in [0usize, 1, 2] {
                if rng.chance(50) {
                    sw.stacks.push(s);
                }
            }
        }
        // products blow values up and make the speculation window unusable
        if rng.chance(70) {
            sw.kind_w[2] = 0;
        }
        let max_cmds = if tier == Tier::Thorough && rng.chance(20) { 24 } else { 12 };
        sc.cmds = gen::gen_program(rng, &sw, Flavor::Optimizer, max_cmds);
        if rng.chance(55) {
            gen::optimizer_hazard(rng, &mut sc.cmds);
        }
        if rng.chance(10) {
            // read / exit first thing
            let d = rng.usize(0, 2);
            sc.cmds.insert(0, crate::reflang::Cmd::new(5, 1, d, crate::reflang::RArea::Nil));
        }
        if rng.chance(5) {
            sc.cmds = gen::goto_machine(rng, false);
        }
        sc.stdin = SENTINEL.as_bytes().to_vec();
        sc.plan = gen::gen_plan(rng, true);
        sc.cap_bits = 128;
        if rng.chance(20) {
            sc.set_knob("layout", 1);
        }
        if rng.chance(6) {
            // output edge family (drawn last): the pre-executed part writes something and then a value that is
            // no plain character (2^32·k + low word, surrogate, above U+10FFFF)
            sc.cmds = gen::output_edge(rng);
            sc.set_knob("output_edge", 1);
        }
        sc
    }
    fn run(&self, sc: &Scenario) -> RunOut {
        let mut out = RunOut::default();
        let parsed = match parse_checked(sc) {
            Ok(p) => p,
            Err(v) => {
                out.violation = Some(v);
                return out;
            }
        };
        let n = sc.cmds.len() as u64;
        // the speculation window must stay within small values (model run with the sentinel as input)
        let window = (101 * n * n + n + 10).min(80_000);
        let pf = reflang::preflight(&sc.cmds, &sc.stdin, window, sc.cap_bits, false);
        match &pf.halt {
            Halt::Cap | Halt::Memory => {
                out.skipped = Some("values leave the cap inside the speculation window");
                return out;
            }
            // past an unspecified step the model bounds nothing (number sizes, running time): only the straight-line
            // output edge family goes on from there
            Halt::Ended(End::Unspecified(m)) if !(m.starts_with("output value") && sc.knob("output_edge") == 1) => {
                out.skipped = Some("unspecified behaviour inside the speculation window");
                return out;
            }
            _ => {}
        }
        // writing a value of 2^32 or more: what is written is unspecified (an encoding error is as good as a
        // character), but the optimiser still has to return without effects
        let unspecified_output = matches!(&pf.halt, Halt::Ended(End::Unspecified(_)));
        out.add("writes_value_of_2^32_or_more_in_window", unspecified_output as u64);
        let model_encoding = matches!(pf.halt, Halt::Ended(End::Encoding(_))) || unspecified_output;
        let selects_io_then_pops = {
            let mut sel_io = false;
            let mut hit = false;
            for c in &sc.cmds {
                if sel_io && (c.kind != 0 || c.area.ops() > 0) {
                    hit = true;
                }
                if c.kind == 5 {
                    sel_io = c.d <= 2;
                    if sel_io && c.area.ops() > 0 {
                        hit = true;
                    }
                }
            }
            hit
        };
        let backward = pf.m.probes[probe::JUMP] + pf.m.probes[probe::HEART_RETURN] > 0;
        out.nontrivial = selects_io_then_pops || backward;
        out.add("selects_io_stack_then_pops", selects_io_then_pops as u64);
        out.add("backward_jump_in_window", backward as u64);
        out.add("model_nonterminating_in_window", matches!(pf.halt, Halt::Budget) as u64);
        out.add("area_pop_from_io_stack", pf.m.probes[probe::AREA_POP_IO]);
        out.shape = crate::props::c01::shape_of(&pf.m.probes, &None);
        for level in 0u8..=2 {
            let mut plan = sc.plan.clone();
            plan.tick_budget = tick_bound(n);
            let code = parsed.clone();
            let (ending, val, world) = sim::run_process(plan, sc.stdin.clone(), || {
                hyeong::core::optimize::optimize(code, level).map(|(_s, c)| c.len()).map_err(|e| e.get_msg())
            });
            out.absorb_world(&world);
            out.add("optimize_calls", 1);
            out.add("opt_execute_steps", world.ticks_opt);
            let tag = |c: &str| format!("O{}-{}", level, c);
            let v = if world.line_reads > 0 || world.raw_reads > 0 || world.stdin_pos > 0 {
                Some(Violation::new(&tag("stdin-read"), "sentinel fully unread", format!("{} line reads, {} bytes consumed", world.line_reads, world.stdin_pos)))
            } else if !world.out.is_empty() || !world.err.is_empty() {
                Some(Violation::new(
                    &tag("stream-write"),
                    "nothing on the process streams",
                    format!("stdout {:?} stderr {:?}", truncate(&String::from_utf8_lossy(&world.out), 200), truncate(&String::from_utf8_lossy(&world.err), 200)),
                ))
            } else {
                match (&ending, &val) {
                    (Ending::Return, Some(Ok(_))) => None,
                    (Ending::Return, Some(Err(m))) => {
                        if model_encoding && level == 2 {
                            out.add("optimize_returned_encoding_error", 1);
                            None
                        } else {
                            Some(Violation::new(&tag("error-result"), "Ok(..)", format!("Err({})", m)))
                        }
                    }
                    (Ending::Exit { site, code }, _) => Some(Violation::new(&tag("process-exit"), "optimize returns", format!("exit({}) at {}", code, site))),
                    (Ending::Stop, _) => Some(Violation::new(
                        &tag("work-bound"),
                        format!("at most {} speculative steps for {} commands", tick_bound(n), n),
                        format!("still running after {} steps", world.ticks),
                    )),
                    (Ending::Panic(m), _) => Some(Violation::new(&tag("panic"), "no panic", m.clone())),
                    (Ending::Return, None) => None,
                }
            };
            if v.is_some() {
                out.violation = v;
                return out;
            }
        }
        out
    }
    fn post(&self, tier: Tier, seed: u64, stats: &mut crate::runner::Stats) -> Option<(Scenario, Violation)> {
        // RealWorld complement: a stray print!/read/exit would bypass the stubs
        let probe_exe = match crate::real::optprobe() {
            Ok(p) => p,
            Err(e) => {
                println!("HARNESS-ERROR: {}", e);
                std::process::exit(2);
            }
        };
        let n = match tier {
            Tier::Quick => 500,
            Tier::Thorough => 30_000,
        };
        let _ = probe_exe;
        let (spawned, bad) = crate::runner::par_find(n, |i| {
            let sc = crate::runner::make_scenario(self, seed, i, tier);
            let (c, v) = self.real_case(&sc);
            match v {
                Some(v) => (c, Some((sc, v))),
                None => (c, None),
            }
        });
        stats.extra.push(("realworld_spawns".into(), J::Int(spawned as i64)));
        stats.extra.push(("realworld_note".into(), J::str("probe executable linked against the guard-off library calls optimize(code, level); stdin is a regular file whose shared offset shows any consumed byte; stdout must be exactly the completion marker, stderr empty, status 0")));
        bad
    }
    fn replay_real(&self, sc: &Scenario) -> Option<Violation> {
        self.real_case(sc).1
    }
    fn components(&self) -> J {
        J::obj()
            .set("real", J::str("parse::parse, optimize::optimize (all levels) incl. opt_execute, push/pop_stack_wrap, OptState, number"))
            .set("stubbed", J::str("stdin descriptor (SimPipe behind the read_line_ hook), process::exit (hook), termcolor sinks; a stray print! would bypass the stub and is covered by the RealWorld probe"))
            .set("oracle", J::str("event-log invariants (no Read/Line/Exit/Write event, Tick{opt_execute} bound)"))
    }
    fn assumptions(&self) -> Vec<String> {
        vec![
            "programs whose values leave 128 bits inside the speculation window (101 n^2 + n steps of the reference model) are skipped: BigNum division would stall the run".into(),
            "work bound 2000 n^2 + n + 10 speculative steps (today's code needs at most 101 n^2 + n)".into(),
        ]
    }
}
