//! C11 — the debugger shows the true state, steps back exactly, and never crashes.
//! Oracle: a debugger model over the real interpreter's own path (realpath.rs).

use crate::gen::{self, Flavor};
use crate::json::J;
use crate::props::c01::parse_checked;
use crate::realpath::{real_path, Path, StepEnd};
use crate::reflang::{self, probe, Cmd, Halt, RArea};
use crate::rng::Rng;
use crate::runner::{truncate, Property, RunOut, Tier, Violation};
use crate::scenario::Scenario;
use crate::sim::{self, Ending};
use crate::transcript::{excise, walk, Expect, Piece, PROMPT};
use hyeong::core::code::UnOptCode;
use std::collections::BTreeSet;

pub struct C11;

#[derive(Clone, Debug, PartialEq)]
pub enum DbgEnd {
    /// program ran to completion: the debugger returns
    ProgramEnd,
    ProgramExit(i32),
    /// `exit` command or end of input
    UserExit,
    UserEof,
    /// output-encoding error inside a step (only "no crash, status 1, diagnostic" is checked)
    EncodingError,
    /// script leaves the safe window: cut it before this line
    Cut(usize),
}

pub struct Drive {
    pub end: DbgEnd,
    pub ticks: u64,
    pub lines_used: usize,
    pub violation: Option<Violation>,
    pub prev_after_two: bool,
    pub run_stopped_at_bp: bool,
    pub bp_oob: bool,
    pub back_at_start: bool,
    pub states_shown: u64,
    pub max_depth: usize,
    pub pos: usize,
}

struct Cursor<'a> {
    t: Option<&'a [u8]>,
    pos: usize,
    violation: Option<Violation>,
}

impl<'a> Cursor<'a> {
    fn expect(&mut self, piece: Piece, clause: &'static str, note: String) -> Option<bool> {
        if self.violation.is_some() {
            return None;
        }
        let t = self.t?;
        match walk(t, self.pos, &[Expect { piece, clause, note }]) {
            Ok((p, ch)) => {
                self.pos = p;
                ch.first().copied()
            }
            Err((c, e, o)) => {
                self.violation = Some(Violation::new(&c, e, o));
                None
            }
        }
    }
}

fn loc_text(file: &str, c: &UnOptCode) -> String {
    let (l, col) = c.get_location();
    format!("{}:{}:{}", file, l, col)
}

fn flush_pieces(cur: &mut Cursor, out: &mut Vec<u8>, err: &mut Vec<u8>, clause: &'static str, note: &str) {
    // everything the program wrote since the last delivery, each character once, before the next prompt
    cur.expect(Piece::Output { out: out.clone(), err: err.clone() }, clause, format!("{}: program output delivered once", note));
    out.clear();
    err.clear();
}

/// Simulate the debugger model over the script; with a transcript, check it piece by piece.
pub fn drive(script: &[String], code: &[UnOptCode], path: &Path, file: &str, header: &[u8], transcript: Option<&[u8]>, max_ticks: u64) -> Drive {
    let len = code.len();
    let mut cur = Cursor { t: transcript, pos: 0, violation: None };
    let mut d = Drive {
        end: DbgEnd::UserEof,
        ticks: 0,
        lines_used: 0,
        violation: None,
        prev_after_two: false,
        run_stopped_at_bp: false,
        bp_oob: false,
        back_at_start: false,
        states_shown: 0,
        max_depth: 0,
        pos: 0,
    };
    cur.expect(Piece::Marked("==> "), "header", "debug-mode banner".into());
    cur.expect(Piece::Marked("==> "), "header", "parsing banner".into());
    let _ = header;
    let mut k = 0usize; // history depth
    let mut bps: BTreeSet<usize> = BTreeSet::new();
    bps.insert(0);
    let mut oob_accepted = false;
    let mut fwd_since_start = 0usize;
    let mut pend_out: Vec<u8> = Vec::new();
    let mut pend_err: Vec<u8> = Vec::new();

    // one forward step of the model; returns false when the session is over
    macro_rules! step {
        ($note:expr) => {{
            if k >= path.steps.len() {
                // leaving the pre-computed safe window
                None
            } else {
                let st = &path.steps[k];
                pend_out.extend_from_slice(&st.out);
                pend_err.extend_from_slice(&st.err);
                d.ticks += 1;
                Some(st.end.clone())
            }
        }};
    }

    if len == 0 {
        d.end = DbgEnd::ProgramEnd;
        d.violation = cur.violation;
        d.pos = cur.pos;
        return d;
    }

    let mut i = 0usize;
    'session: loop {
        // prompt + read
        cur.expect(Piece::Exact(PROMPT.to_vec()), "prompt", format!("before reading line {}", i));
        if i >= script.len() {
            d.end = DbgEnd::UserEof;
            break;
        }
        let raw = &script[i];
        let line = raw.trim();
        let words: Vec<&str> = line.split(' ').collect();
        let note = format!("line {} {:?} at depth {}", i, raw, k);
        match words[0] {
            "next" | "n" => {
                if k >= path.steps.len() || d.ticks + 1 > max_ticks {
                    d.end = DbgEnd::Cut(i);
                    break;
                }
                let c = path.locs[k];
                cur.expect(
                    Piece::Listing { idx: c, loc: loc_text(file, &code[c]), raw: code[c].get_raw() },
                    "next-listing",
                    format!("{}: listing of command {}", note, c),
                );
                match step!(note).unwrap() {
                    StepEnd::Next(nl) => {
                        flush_pieces(&mut cur, &mut pend_out, &mut pend_err, "step-output", &note);
                        k += 1;
                        fwd_since_start += 1;
                        d.max_depth = d.max_depth.max(k);
                        if nl >= len {
                            d.end = DbgEnd::ProgramEnd;
                            d.lines_used = i + 1;
                            break 'session;
                        }
                    }
                    StepEnd::Exit(c) => {
                        flush_pieces(&mut cur, &mut pend_out, &mut pend_err, "step-output", &note);
                        d.end = DbgEnd::ProgramExit(c);
                        d.lines_used = i + 1;
                        break 'session;
                    }
                    _ => {
                        d.end = DbgEnd::EncodingError;
                        d.lines_used = i + 1;
                        break 'session;
                    }
                }
            }
            "previous" | "p" => {
                if k > 0 {
                    cur.expect(Piece::Marked("==> "), "previous", format!("{}: moved back", note));
                    if fwd_since_start >= 2 {
                        d.prev_after_two = true;
                    }
                    k -= 1;
                } else {
                    cur.expect(Piece::Marked("[error] "), "previous-at-start", format!("{}: cannot go back", note));
                    d.back_at_start = true;
                }
            }
            "run" | "r" => {
                // worst case: the run never stops inside the window
                let mut kk = k;
                let mut t = d.ticks;
                let mut ok = true;
                loop {
                    if kk >= path.steps.len() || t + 1 > max_ticks {
                        ok = false;
                        break;
                    }
                    t += 1;
                    match &path.steps[kk].end {
                        StepEnd::Next(nl) => {
                            kk += 1;
                            if *nl >= len || bps.contains(nl) {
                                break;
                            }
                        }
                        _ => break,
                    }
                }
                if !ok {
                    d.end = DbgEnd::Cut(i);
                    break;
                }
                loop {
                    match step!(note).unwrap() {
                        StepEnd::Next(nl) => {
                            k += 1;
                            fwd_since_start += 1;
                            d.max_depth = d.max_depth.max(k);
                            if nl >= len {
                                flush_pieces(&mut cur, &mut pend_out, &mut pend_err, "run-output", &note);
                                d.end = DbgEnd::ProgramEnd;
                                d.lines_used = i + 1;
                                break 'session;
                            }
                            if bps.contains(&nl) {
                                flush_pieces(&mut cur, &mut pend_out, &mut pend_err, "run-output", &note);
                                d.run_stopped_at_bp = true;
                                break;
                            }
                        }
                        StepEnd::Exit(c) => {
                            flush_pieces(&mut cur, &mut pend_out, &mut pend_err, "run-output", &note);
                            d.end = DbgEnd::ProgramExit(c);
                            d.lines_used = i + 1;
                            break 'session;
                        }
                        _ => {
                            d.end = DbgEnd::EncodingError;
                            d.lines_used = i + 1;
                            break 'session;
                        }
                    }
                }
            }
            "state" | "s" => {
                // content, not rendering: taken from the state API of the real interpreter's own k-step state
                let mut st = path.states[k].clone();
                let mut stacks = std::collections::BTreeMap::new();
                for i in hyeong::core::state::State::get_all_stack_index(&st) {
                    let v: Vec<String> = hyeong::core::state::State::get_stack(&mut st, i).iter().map(|n| n.to_string()).collect();
                    stacks.insert(i, v);
                }
                let sel = hyeong::core::state::State::current_stack(&st);
                d.states_shown += 1;
                cur.expect(Piece::StateDump { cur: sel, stacks }, "state-display", format!("{}: interpreter state after {} steps", note, k));
            }
            "break" | "b" => {
                if words.len() < 2 {
                    cur.expect(Piece::Marked("==> "), "break-listing", format!("{}: listing banner", note));
                    if oob_accepted {
                        cur.expect(Piece::AnyUntilPrompt, "break-listing", note.clone());
                    } else {
                        for &b in bps.iter() {
                            cur.expect(
                                Piece::Listing { idx: b, loc: loc_text(file, &code[b]), raw: code[b].get_raw() },
                                "break-listing",
                                format!("{}: breakpoint {}", note, b),
                            );
                        }
                    }
                } else {
                    match words[1].parse::<usize>() {
                        Err(_) => {
                            cur.expect(Piece::Marked("[error] "), "break-response", format!("{}: not a number", note));
                        }
                        Ok(n) if n >= len => {
                            d.bp_oob = true;
                            // accepted or refused, never a crash; an accepted out-of-range
                            // breakpoint can never be hit
                            match cur.expect(Piece::EitherMarked, "break-response", format!("{}: number at/beyond program length {}", note, len)) {
                                Some(true) => {
                                    if !bps.remove(&n) {
                                        bps.insert(n);
                                    }
                                    oob_accepted = bps.iter().any(|&x| x >= len);
                                }
                                _ => {}
                            }
                        }
                        Ok(n) => {
                            cur.expect(Piece::Marked("==> "), "break-response", format!("{}: toggle breakpoint {}", note, n));
                            if !bps.remove(&n) {
                                bps.insert(n);
                            }
                        }
                    }
                }
            }
            "help" | "h" => {
                cur.expect(Piece::BlockUntilPrompt, "help", note.clone());
            }
            "exit" => {
                d.end = DbgEnd::UserExit;
                d.lines_used = i + 1;
                break;
            }
            "" => {}
            _ => {
                cur.expect(Piece::Marked("[error] "), "unknown-command", note.clone());
            }
        }
        i += 1;
        d.lines_used = i;
    }
    d.violation = cur.violation;
    d.pos = cur.pos;
    d
}

pub fn script_bytes(script: &[String], no_final_newline: bool, crlf: bool) -> Vec<u8> {
    let mut b = Vec::new();
    for (i, l) in script.iter().enumerate() {
        b.extend_from_slice(l.as_bytes());
        if i + 1 < script.len() || !no_final_newline {
            if crlf {
                b.push(b'\r');
            }
            b.push(b'\n');
        }
    }
    b
}

fn gen_script(rng: &mut Rng, len: usize, max_lines: usize) -> Vec<String> {
    let n = rng.usize(1, max_lines);
    let mut v = Vec::new();
    let long = rng.chance(30);
    let w = [30u32, 20, 7, 20, 10, 5, 2, 3, 3];
    for _ in 0..n {
        let mut s = match rng.weighted(&w) {
            0 => if long { "next" } else { "n" }.to_string(),
            1 => if long { "previous" } else { "p" }.to_string(),
            2 => if long { "run" } else { "r" }.to_string(),
            3 => if long { "state" } else { "s" }.to_string(),
            4 => {
                let arg = match rng.below(100) {
                    0..=59 => rng.usize(0, len.saturating_sub(1)).to_string(),
                    60..=74 => len.to_string(),
                    75..=82 => (len + rng.usize(1, 3)).to_string(),
                    83..=86 => "99999999999999999999999999".to_string(),
                    87..=90 => "-1".to_string(),
                    91..=93 => "0x1".to_string(),
                    94..=96 => "x".to_string(),
                    _ => "3x".to_string(),
                };
                format!("{} {}", if long { "break" } else { "b" }, arg)
            }
            5 => if long { "break" } else { "b" }.to_string(),
            6 => if long { "help" } else { "h" }.to_string(),
            7 => {
                if rng.chance(25) {
                    // a long unknown word of mixed character widths (e.g. program text pasted at the prompt)
                    let mut w = String::new();
                    for _ in 0..rng.usize(12, 60) {
                        w.push(*rng.pick(&['형', '.', 'x', '엉', '💕', '?', 'é', '하', '앙', '7', '!', '♡']));
                    }
                    w
                } else {
                    (*rng.pick(&["foo", "N", "nextt", "q", "?", "형"])).to_string()
                }
            }
            _ => (*rng.pick(&["", " ", "   "])).to_string(),
        };
        if rng.chance(5) {
            s = format!(" {} ", s);
        }
        v.push(s);
    }
    if rng.chance(15) {
        v.push("exit".to_string());
    }
    v
}

pub struct Prepared {
    pub parsed: Vec<UnOptCode>,
    pub path: Path,
    pub script: Vec<String>,
    pub no_final_newline: bool,
    pub model_encoding: bool,
    pub cut: bool,
}

/// Everything that is decided before the debugger runs (shared by SimWorld and RealWorld).
pub fn prepare(sc: &Scenario) -> Result<Prepared, Result<&'static str, Violation>> {
    let parsed = parse_checked(sc).map_err(Err)?;
    let pf = reflang::preflight(&sc.cmds, &[], sc.budget, sc.cap_bits, false);
    if pf.m.probes[probe::READ_LINE] + pf.m.probes[probe::READ_EOF] > 0 {
        return Err(Ok("program reads input"));
    }
    let mut window = pf.safe_steps;
    let mut model_encoding = false;
    match &pf.halt {
        Halt::Ended(reflang::End::End) | Halt::Ended(reflang::End::Exit(_)) => window += 1,
        Halt::Ended(reflang::End::Encoding(_)) => {
            window += 1;
            model_encoding = true;
        }
        _ => {}
    }
    let path = real_path(&parsed, window);
    if path.steps.iter().any(|s| matches!(s.end, StepEnd::Read | StepEnd::Panic(_))) {
        return Err(Ok("real interpreter path not usable (read or panic): C01's business"));
    }
    let dry = drive(&sc.script, &parsed, &path, &sc.file_name, b"", None, 4000);
    let mut script = sc.script.clone();
    let mut cut = false;
    if let DbgEnd::Cut(i) = dry.end {
        script.truncate(i);
        cut = true;
    }
    let mut no_final_newline = sc.no_final_newline;
    if no_final_newline && script.last().map_or(false, |l| l.is_empty()) {
        // an empty last line without terminator is no line at all: the line before it ends with its terminator
        script.pop();
        no_final_newline = false;
    }
    Ok(Prepared { parsed, path, script, no_final_newline, model_encoding, cut })
}

impl C11 {
    /// The release binary's `debug` sub-command on one scenario.
    pub fn real_case(&self, sc: &Scenario) -> (u64, Option<(Scenario, Violation)>) {
        let bin = match crate::real::binary() {
            Ok(b) => b,
            Err(e) => {
                println!("HARNESS-ERROR: {}", e);
                std::process::exit(2);
            }
        };
            let pr = match prepare(sc) {
                Ok(p) => p,
                Err(_) => return (0, None),
            };
            let d = sim::scratch_dir().join("c11real");
            std::fs::create_dir_all(&d).expect("mkdir");
            let fpath = d.join(&sc.file_name);
            std::fs::write(&fpath, sc.file_content()).expect("write");
            let stdin = script_bytes(&pr.script, pr.no_final_newline, sc.knob("crlf") == 1);
            let args: Vec<String> = vec!["debug".into(), "--color".into(), "never".into(), fpath.to_string_lossy().into_owned()];
            let chunks = crate::real::chunks_from_plan(&sc.plan, 64);
            let r = crate::real::run(&bin, &args, None, &stdin, &chunks, std::time::Duration::from_secs(60)).expect("spawn");
            let res = drive(&pr.script, &pr.parsed, &pr.path, &sc.file_name, b"", Some(&r.stdout), 4000);
            let want_status = match &res.end {
                DbgEnd::ProgramExit(c) => *c,
                DbgEnd::EncodingError => 1,
                _ => 0,
            };
            let mut v = None;
            if r.timed_out || r.signal.is_some() || r.status == Some(101) {
                v = Some(Violation::new("real-crash", "the debugger never crashes", format!("{} ; stderr {:?} ; script {:?}", r.describe(), truncate(&String::from_utf8_lossy(&r.stderr), 300), pr.script)));
            } else if let Some(x) = res.violation {
                v = Some(Violation::new(&format!("real-{}", x.clause), x.expected, x.observed));
            } else if r.status != Some(want_status) {
                v = Some(Violation::new("real-ending", format!("status {}", want_status), r.describe()));
            } else if res.end != DbgEnd::EncodingError && (crate::transcript::skip_log_lines(&r.stdout, res.pos) != r.stdout.len() || !r.stderr.is_empty()) {
                v = Some(Violation::new(
                    "real-extra-output",
                    "nothing after the last expected piece, empty stderr",
                    format!("stdout tail {:?} ; stderr {:?}", truncate(&String::from_utf8_lossy(&r.stdout[res.pos.min(r.stdout.len())..]), 200), truncate(&String::from_utf8_lossy(&r.stderr), 200)),
                ));
            }
            if let Some(mut v) = v {
                v.world = "real";
                let mut s = sc.clone();
                s.script = pr.script.clone();
                return (1, Some((s, v)));
            }
            (1, None)
    }
}

impl Property for C11 {
    fn id(&self) -> &'static str {
        "C11"
    }
    fn level(&self) -> &'static str {
        "exploration"
    }
    fn rule(&self) -> &'static str {
        "scenario = (input-free command list, history of debugger commands on simulated stdin, fault plan with chunked reads/EINTR/short writes/SIGINT at prompts/EOF anywhere); the real app::debug::run is driven in SimWorld and its transcript is walked by a debugger model whose states come from the real interpreter run step by step; \
         non-trivial = the history contains a `previous` after at least 2 forward steps, or a `run` that stops at a breakpoint, or a breakpoint number >= program length; distinct = distinct scenario content hash"
    }
    fn runs(&self, tier: Tier) -> u64 {
        match tier {
            Tier::Quick => 60_000,
            Tier::Thorough => 3_000_000,
        }
    }
    fn generate(&self, rng: &mut Rng, tier: Tier) -> Scenario {
        let mut sc = Scenario::new("C11");
        sc.subcommand = "debug".into();
        let sw = gen::swarm(rng, Flavor::InputFree);
        let max_cmds = if tier == Tier::Thorough && rng.chance(20) { 20 } else { 12 };
        sc.cmds = gen::gen_program(rng, &sw, Flavor::InputFree, max_cmds);
        if rng.chance(25) {
            gen::optimizer_hazard(rng, &mut sc.cmds);
            // keep it input-free
            for c in sc.cmds.iter_mut() {
                if c.kind == 5 && c.d == 0 {
                    c.d = 3;
                }
            }
        }
        if rng.chance(6) {
            sc.cmds = gen::goto_machine(rng, true);
        }
        if rng.chance(8) {
            gen::magic_output(rng, &mut sc.cmds);
        }
        if rng.chance(3) {
            sc.cmds.clear();
        }
        let max_lines = if tier == Tier::Thorough { 60 } else { 40 };
        sc.script = gen_script(rng, sc.cmds.len(), max_lines);
        if rng.chance(2) {
            // a lot of output inside one `run`
            let pos = rng.usize(0, sc.cmds.len());
            sc.cmds.insert(pos, Cmd::new(5, rng.usize(4200, 5200), rng.usize(1, 2), RArea::Nil));
            sc.cmds.insert(pos + 1, Cmd::new(5, 1, 3, RArea::Nil));
        }
        if rng.chance(2) {
            // deep history: a long `run` up to a breakpoint on the last command, then `previous` as often as
            // steps were made (and a little more), looking at the state on the way
            sc.cmds.clear();
            let rounds = rng.usize(150, 260);
            gen::small_loop_core(rng, &mut sc.cmds, rounds);
            sc.cmds.push(Cmd::new(0, 1, 7, RArea::Nil));
            let last = sc.cmds.len() - 1;
            sc.script = vec![format!("b {}", last), "r".to_string(), "s".to_string()];
            let back = rounds * 8 + rng.usize(0, 12);
            for i in 0..back {
                sc.script.push("p".to_string());
                if i % 397 == 396 {
                    sc.script.push("s".to_string());
                }
            }
            sc.script.push("s".to_string());
            sc.script.push("n".to_string());
            sc.script.push("s".to_string());
            sc.budget = 4000;
        }
        sc.no_final_newline = rng.chance(20);
        sc.set_knob("crlf", rng.chance(10) as i64);
        let ff = rng.chance(40);
        sc.plan = gen::gen_plan(rng, ff);
        if !ff && rng.chance(40) {
            for _ in 0..rng.usize(1, 3) {
                sc.plan.sigint_at.push(rng.usize(0, sc.script.len()) as u32);
            }
            sc.plan.sigint_at.sort_unstable();
            sc.plan.sigint_at.dedup();
        }
        if sc.budget < 600 || sc.budget == 400 {
            sc.budget = 600;
        }
        sc.cap_bits = 96;
        if rng.chance(20) {
            sc.set_knob("layout", 1);
        }
        sc
    }
    fn run(&self, sc: &Scenario) -> RunOut {
        let mut out = RunOut::default();
        let pr = match prepare(sc) {
            Ok(p) => p,
            Err(Ok(reason)) => {
                out.skipped = Some(reason);
                return out;
            }
            Err(Err(v)) => {
                out.violation = Some(v);
                return out;
            }
        };
        if pr.cut {
            out.add("script_cut_at_window", 1);
        }
        let (parsed, path, script, no_final_newline, model_encoding) = (pr.parsed, pr.path, pr.script, pr.no_final_newline, pr.model_encoding);
        let file = sc.file_name.clone();
        let dry = drive(&script, &parsed, &path, &file, b"", None, 4000);
        // the real debugger
        let dir = sim::scratch_dir();
        let fpath = dir.join(&sc.file_name);
        std::fs::write(&fpath, sc.file_content()).expect("write program file");
        let mut plan = sc.plan.clone();
        plan.tick_budget = dry.ticks + 200;
        plan.sigint_at.retain(|&x| (x as usize) <= script.len());
        let stdin = script_bytes(&script, no_final_newline, sc.knob("crlf") == 1);
        let (ending, _, world) = sim::run_process(plan, stdin, || {
            use hyeong::util::option::HyeongOption;
            use termcolor::{ColorChoice, StandardStream};
            let mut stdout = StandardStream::stdout(ColorChoice::Never);
            let mut stderr = StandardStream::stderr(ColorChoice::Never);
            let opt = HyeongOption::new().color(ColorChoice::Never).input(fpath.clone());
            let r = hyeong::app::debug::run(&mut stdout, &opt);
            hyeong::util::io::handle(&mut stderr, r)
        });
        let _ = std::fs::remove_file(&fpath);
        out.absorb_world(&world);
        let transcript = excise(&world.out, &world.sigint_ranges);
        let res = drive(&script, &parsed, &path, &file, b"", Some(&transcript), 4000);
        out.add("debugger_sessions", 1);
        out.add("script_lines_consumed", res.lines_used as u64);
        out.add("previous_after_two_forward_steps", res.prev_after_two as u64);
        out.add("run_stopped_at_breakpoint", res.run_stopped_at_bp as u64);
        out.add("breakpoint_at_or_beyond_len", res.bp_oob as u64);
        out.add("previous_at_start", res.back_at_start as u64);
        out.add("states_displayed", res.states_shown);
        out.add("model_encoding_error_program", model_encoding as u64);
        out.add(
            match res.end {
                DbgEnd::ProgramEnd => "end_program_completed",
                DbgEnd::ProgramExit(_) => "end_program_exit",
                DbgEnd::UserExit => "end_user_exit",
                DbgEnd::UserEof => "end_user_eof",
                DbgEnd::EncodingError => "end_encoding_error",
                DbgEnd::Cut(_) => "end_cut",
            },
            1,
        );
        out.nontrivial = res.prev_after_two || res.run_stopped_at_bp || res.bp_oob;
        out.shape = (res.max_depth as u64) << 32 ^ (res.lines_used as u64) << 8 ^ (res.prev_after_two as u64) << 2 ^ (res.run_stopped_at_bp as u64) << 1 ^ res.bp_oob as u64;
        if let Ending::Panic(m) = &ending {
            out.violation = Some(Violation::new("crash", "the debugger never crashes", format!("{} ; script {:?}", m, script)));
            return out;
        }
        if let Some(v) = res.violation {
            out.violation = Some(v);
            return out;
        }
        // ending and completeness
        let want = match &res.end {
            DbgEnd::ProgramEnd => Ending::Return,
            DbgEnd::ProgramExit(c) => Ending::Exit { site: "pop_stack_wrap", code: *c },
            DbgEnd::UserExit => Ending::Exit { site: "debug_exit", code: 0 },
            DbgEnd::UserEof => Ending::Exit { site: "debug_eof", code: 0 },
            DbgEnd::EncodingError => Ending::Exit { site: "print_error", code: 1 },
            DbgEnd::Cut(_) => Ending::Stop,
        };
        let end_ok = match (&want, &ending) {
            (Ending::Exit { code: a, site: "debug_exit" | "debug_eof" }, Ending::Exit { code: b, site: "debug_exit" | "debug_eof" }) => a == b,
            (a, b) => a == b,
        };
        if !end_ok {
            out.violation = Some(Violation::new("ending", want.describe(), ending.describe()));
            return out;
        }
        if res.end == DbgEnd::EncodingError {
            if !String::from_utf8_lossy(&world.err).contains("[error] ") {
                out.violation = Some(Violation::new("ending", "diagnostic on stderr", truncate(&String::from_utf8_lossy(&world.err), 200)));
            }
            return out;
        }
        if crate::transcript::skip_log_lines(&transcript, res.pos) != transcript.len() {
            out.violation = Some(Violation::new(
                "extra-output",
                "transcript ends after the last expected piece",
                format!("{:?}", truncate(&String::from_utf8_lossy(&transcript[res.pos..]), 300)),
            ));
            return out;
        }
        if !world.err.is_empty() {
            out.violation = Some(Violation::new("stderr", "nothing on the process's stderr", truncate(&String::from_utf8_lossy(&world.err), 300)));
        }
        out
    }
    fn post(&self, tier: Tier, seed: u64, stats: &mut crate::runner::Stats) -> Option<(Scenario, Violation)> {
        // RealWorld: the release binary's `debug` sub-command with the script on a real pipe
        let bin = match crate::real::binary() {
            Ok(b) => b,
            Err(e) => {
                println!("HARNESS-ERROR: {}", e);
                std::process::exit(2);
            }
        };
        let n = match tier {
            Tier::Quick => 250,
            Tier::Thorough => 20_000,
        };
        let dir = sim::scratch_dir().join("c11real");
        std::fs::create_dir_all(&dir).expect("mkdir");
        let _ = &bin;
        let (spawned, bad) = crate::runner::par_find(n, |i| {
            let sc = crate::runner::make_scenario(self, seed, i, tier);
            self.real_case(&sc)
        });
        let _ = std::fs::remove_dir_all(&dir);
        stats.extra.push(("realworld_spawns".into(), J::Int(spawned as i64)));
        stats.extra.push(("realworld_note".into(), J::str("release binary `hyeong debug --color never FILE`, script on a real pipe in planned write sizes, same transcript walk; no SIGINT in RealWorld")));
        bad
    }
    fn replay_real(&self, sc: &Scenario) -> Option<Violation> {
        self.real_case(sc).1.map(|x| x.1)
    }
    fn components(&self) -> J {
        J::obj()
            .set("real", J::str("app::debug::run (history stack, breakpoints, run loop, CustomWriter capture/flush), check::print_un_opt_codes, execute::execute_one, UnOptState Debug, io::read_line_from via the stdin hook, io::handle"))
            .set("stubbed", J::str("termcolor sinks, ctrlc (handler invoked synchronously as the SIGINT fault), stdin descriptor, process::exit (hook)"))
            .set("oracle", J::str("debugger model (depth, breakpoint set, pending output) over states obtained by running the real execute_one k times through the harness's own seams"))
    }
    fn assumptions(&self) -> Vec<String> {
        vec![
            "message wording is matched by marker only (==> / [error] / [stdout] / [stderr]); payloads exactly".into(),
            "programs free of output-encoding errors except a slice where only 'status 1 + diagnostic, no crash' is checked".into(),
            "a breakpoint number >= program length may be refused or accepted, never crash".into(),
        ]
    }
}
