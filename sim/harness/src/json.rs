//! Minimal JSON value, writer and parser (replay files, evidence).

use std::collections::BTreeMap;

#[derive(Clone, Debug, PartialEq)]
pub enum J {
    Null,
    Bool(bool),
    Int(i64),
    Num(f64),
    Str(String),
    Arr(Vec<J>),
    Obj(Vec<(String, J)>),
}

impl J {
    pub fn obj() -> J {
        J::Obj(Vec::new())
    }
    pub fn set(mut self, k: &str, v: J) -> J {
        if let J::Obj(ref mut o) = self {
            o.push((k.to_string(), v));
        }
        self
    }
    pub fn put(&mut self, k: &str, v: J) {
        if let J::Obj(ref mut o) = self {
            if let Some(e) = o.iter_mut().find(|e| e.0 == k) {
                e.1 = v;
            } else {
                o.push((k.to_string(), v));
            }
        }
    }
    pub fn get(&self, k: &str) -> Option<&J> {
        match self {
            J::Obj(o) => o.iter().find(|e| e.0 == k).map(|e| &e.1),
            _ => None,
        }
    }
    pub fn str(s: &str) -> J {
        J::Str(s.to_string())
    }
    pub fn as_str(&self) -> Option<&str> {
        match self {
            J::Str(s) => Some(s),
            _ => None,
        }
    }
    pub fn as_i64(&self) -> Option<i64> {
        match self {
            J::Int(i) => Some(*i),
            J::Num(f) => Some(*f as i64),
            _ => None,
        }
    }
    pub fn as_u64(&self) -> Option<u64> {
        match self {
            J::Int(i) => Some(*i as u64),
            J::Str(s) => s.parse().ok(),
            _ => None,
        }
    }
    pub fn as_bool(&self) -> Option<bool> {
        match self {
            J::Bool(b) => Some(*b),
            _ => None,
        }
    }
    pub fn as_arr(&self) -> Option<&Vec<J>> {
        match self {
            J::Arr(a) => Some(a),
            _ => None,
        }
    }
    pub fn from_map(m: &BTreeMap<String, u64>) -> J {
        J::Obj(m.iter().map(|(k, v)| (k.clone(), J::Int(*v as i64))).collect())
    }

    pub fn write(&self, out: &mut String, indent: usize, pretty: bool) {
        let nl = |out: &mut String, n: usize| {
            if pretty {
                out.push('\n');
                for _ in 0..n {
                    out.push(' ');
                }
            }
        };
        match self {
            J::Null => out.push_str("null"),
            J::Bool(b) => out.push_str(if *b { "true" } else { "false" }),
            J::Int(i) => out.push_str(&i.to_string()),
            J::Num(f) => {
                if f.is_finite() {
                    out.push_str(&format!("{:.3}", f))
                } else {
                    out.push_str("0")
                }
            }
            J::Str(s) => write_str(out, s),
            J::Arr(a) => {
                out.push('[');
                let simple = a.iter().all(|x| !matches!(x, J::Arr(_) | J::Obj(_)));
                for (i, x) in a.iter().enumerate() {
                    if i > 0 {
                        out.push(',');
                        if simple && pretty {
                            out.push(' ');
                        }
                    }
                    if !simple {
                        nl(out, indent + 1);
                    }
                    x.write(out, indent + 1, pretty);
                }
                if !simple && !a.is_empty() {
                    nl(out, indent);
                }
                out.push(']');
            }
            J::Obj(o) => {
                out.push('{');
                for (i, (k, v)) in o.iter().enumerate() {
                    if i > 0 {
                        out.push(',');
                    }
                    nl(out, indent + 1);
                    write_str(out, k);
                    out.push(':');
                    if pretty {
                        out.push(' ');
                    }
                    v.write(out, indent + 1, pretty);
                }
                if !o.is_empty() {
                    nl(out, indent);
                }
                out.push('}');
            }
        }
    }
    pub fn pretty(&self) -> String {
        let mut s = String::new();
        self.write(&mut s, 0, true);
        s.push('\n');
        s
    }
    pub fn compact(&self) -> String {
        let mut s = String::new();
        self.write(&mut s, 0, false);
        s
    }
}

fn write_str(out: &mut String, s: &str) {
    out.push('"');
    for c in s.chars() {
        match c {
            '"' => out.push_str("\\\""),
            '\\' => out.push_str("\\\\"),
            '\n' => out.push_str("\\n"),
            '\r' => out.push_str("\\r"),
            '\t' => out.push_str("\\t"),
            c if (c as u32) < 0x20 => out.push_str(&format!("\\u{:04x}", c as u32)),
            c => out.push(c),
        }
    }
    out.push('"');
}

pub fn parse(s: &str) -> Result<J, String> {
    let b: Vec<char> = s.chars().collect();
    let mut p = 0usize;
    let v = val(&b, &mut p)?;
    ws(&b, &mut p);
    if p != b.len() {
        return Err(format!("trailing data at {}", p));
    }
    Ok(v)
}

fn ws(b: &[char], p: &mut usize) {
    while *p < b.len() && b[*p].is_whitespace() {
        *p += 1;
    }
}

fn val(b: &[char], p: &mut usize) -> Result<J, String> {
    ws(b, p);
    if *p >= b.len() {
        return Err("eof".into());
    }
    match b[*p] {
        '{' => {
            *p += 1;
            let mut o = Vec::new();
            loop {
                ws(b, p);
                if *p < b.len() && b[*p] == '}' {
                    *p += 1;
                    break;
                }
                let k = match val(b, p)? {
                    J::Str(s) => s,
                    _ => return Err("key".into()),
                };
                ws(b, p);
                if *p >= b.len() || b[*p] != ':' {
                    return Err("colon".into());
                }
                *p += 1;
                let v = val(b, p)?;
                o.push((k, v));
                ws(b, p);
                if *p < b.len() && b[*p] == ',' {
                    *p += 1;
                }
            }
            Ok(J::Obj(o))
        }
        '[' => {
            *p += 1;
            let mut a = Vec::new();
            loop {
                ws(b, p);
                if *p < b.len() && b[*p] == ']' {
                    *p += 1;
                    break;
                }
                a.push(val(b, p)?);
                ws(b, p);
                if *p < b.len() && b[*p] == ',' {
                    *p += 1;
                }
            }
            Ok(J::Arr(a))
        }
        '"' => {
            *p += 1;
            let mut s = String::new();
            while *p < b.len() && b[*p] != '"' {
                if b[*p] == '\\' {
                    *p += 1;
                    match b[*p] {
                        'n' => s.push('\n'),
                        'r' => s.push('\r'),
                        't' => s.push('\t'),
                        'u' => {
                            let h: String = b[*p + 1..*p + 5].iter().collect();
                            let c = u32::from_str_radix(&h, 16).map_err(|e| e.to_string())?;
                            s.push(char::from_u32(c).unwrap_or('\u{FFFD}'));
                            *p += 4;
                        }
                        c => s.push(c),
                    }
                } else {
                    s.push(b[*p]);
                }
                *p += 1;
            }
            *p += 1;
            Ok(J::Str(s))
        }
        't' => {
            *p += 4;
            Ok(J::Bool(true))
        }
        'f' => {
            *p += 5;
            Ok(J::Bool(false))
        }
        'n' => {
            *p += 4;
            Ok(J::Null)
        }
        _ => {
            let st = *p;
            while *p < b.len() && (b[*p].is_ascii_digit() || "+-.eE".contains(b[*p])) {
                *p += 1;
            }
            let t: String = b[st..*p].iter().collect();
            if let Ok(i) = t.parse::<i64>() {
                Ok(J::Int(i))
            } else {
                t.parse::<f64>().map(J::Num).map_err(|e| format!("{} at {}", e, st))
            }
        }
    }
}

pub fn hex(b: &[u8]) -> String {
    let mut s = String::with_capacity(b.len() * 2);
    for x in b {
        s.push_str(&format!("{:02x}", x));
    }
    s
}

pub fn unhex(s: &str) -> Vec<u8> {
    let c: Vec<u8> = s.bytes().collect();
    c.chunks(2)
        .map(|p| u8::from_str_radix(std::str::from_utf8(p).unwrap(), 16).unwrap())
        .collect()
}
