//! xoshiro256** seeded through splitmix64.  One integer decides everything.

#[derive(Clone)]
pub struct Rng {
    s: [u64; 4],
}

pub fn splitmix(state: &mut u64) -> u64 {
    *state = state.wrapping_add(0x9E37_79B9_7F4A_7C15);
    let mut z = *state;
    z = (z ^ (z >> 30)).wrapping_mul(0xBF58_476D_1CE4_E5B9);
    z = (z ^ (z >> 27)).wrapping_mul(0x94D0_49BB_1331_11EB);
    z ^ (z >> 31)
}

/// sub-seed of run `i` of property `p` under `seed`
pub fn sub_seed(seed: u64, prop: &str, i: u64) -> u64 {
    let mut h = seed ^ 0x243F_6A88_85A3_08D3;
    for b in prop.bytes() {
        h = (h ^ b as u64).wrapping_mul(0x0000_0100_0000_01B3);
    }
    let mut st = h ^ i.wrapping_mul(0xD134_2543_DE82_EF95);
    splitmix(&mut st)
}

impl Rng {
    pub fn new(seed: u64) -> Rng {
        let mut st = seed;
        let s = [splitmix(&mut st), splitmix(&mut st), splitmix(&mut st), splitmix(&mut st)];
        Rng { s }
    }
    pub fn next(&mut self) -> u64 {
        let r = self.s[1].wrapping_mul(5).rotate_left(7).wrapping_mul(9);
        let t = self.s[1] << 17;
        self.s[2] ^= self.s[0];
        self.s[3] ^= self.s[1];
        self.s[1] ^= self.s[2];
        self.s[0] ^= self.s[3];
        self.s[2] ^= t;
        self.s[3] = self.s[3].rotate_left(45);
        r
    }
    /// uniform in 0..n (n > 0)
    pub fn below(&mut self, n: u64) -> u64 {
        debug_assert!(n > 0);
        ((self.next() as u128 * n as u128) >> 64) as u64
    }
    pub fn range(&mut self, lo: u64, hi_incl: u64) -> u64 {
        lo + self.below(hi_incl - lo + 1)
    }
    pub fn usize(&mut self, lo: usize, hi_incl: usize) -> usize {
        self.range(lo as u64, hi_incl as u64) as usize
    }
    pub fn chance(&mut self, pct: u64) -> bool {
        self.below(100) < pct
    }
    pub fn one_in(&mut self, n: u64) -> bool {
        self.below(n) == 0
    }
    pub fn pick<'a, T>(&mut self, v: &'a [T]) -> &'a T {
        &v[self.below(v.len() as u64) as usize]
    }
    /// weighted choice: returns index
    pub fn weighted(&mut self, w: &[u32]) -> usize {
        let total: u64 = w.iter().map(|&x| x as u64).sum();
        let mut r = self.below(total.max(1));
        for (i, &x) in w.iter().enumerate() {
            if r < x as u64 {
                return i;
            }
            r -= x as u64;
        }
        w.len() - 1
    }
}
