//! Workload generation (DESIGN 2.6): programs as command lists, stdin texts, fault
//! plans.  Everything is drawn from the run's own PRNG.

use crate::reflang::{Cmd, RArea};
use crate::rng::Rng;
use simcore::Plan;

/// Per-program swarm configuration.
#[derive(Clone, Debug)]
pub struct Swarm {
    pub kind_w: [u32; 6],
    /// candidate stack indices for targets / selections
    pub stacks: Vec<usize>,
    /// (h, d) pairs reused by area-carrying commands so that labels collide
    pub label_pool: Vec<(usize, usize)>,
    pub hearts: Vec<u8>,
    pub area_pct: u64,
    pub ret_pct: u64,
    pub big_h_pct: u64,
    pub multi_pct: u64,
    pub allow_select_io: [bool; 3],
    pub deep_area_pct: u64,
    /// upper bound for dot counts (text size control)
    pub max_d: usize,
    /// few labels, many conditional hearts: different passes pick different labels (forward jumps)
    pub label_heavy: bool,
}

#[derive(Clone, Copy, Debug, PartialEq)]
pub enum Flavor {
    /// anything goes
    General,
    /// never selects stack 0 (C11, C12): no `흑` with zero dots
    InputFree,
    /// biased to optimiser hazards (C02, C10)
    Optimizer,
    /// must terminate quickly with small values (C03): milder loops
    Compile,
}

pub fn swarm(rng: &mut Rng, flavor: Flavor) -> Swarm {
    let mut kind_w = [0u32; 6];
    for w in kind_w.iter_mut() {
        *w = if rng.chance(15) { 0 } else { rng.range(1, 5) as u32 };
    }
    // pushes and selects are the backbone of anything interesting
    if kind_w[0] == 0 {
        kind_w[0] = 2;
    }
    if kind_w.iter().sum::<u32>() == kind_w[0] {
        kind_w[rng.usize(1, 5)] = 3;
    }
    // most programs keep their stacks populated: pushes at least as likely as any consumer
    if rng.chance(70) {
        let m = *kind_w[1..].iter().max().unwrap();
        kind_w[0] = kind_w[0].max(m + rng.range(0, 3) as u32);
    }
    let mut stacks = vec![3usize];
    let allow0 = flavor != Flavor::InputFree && rng.chance(45);
    let allow1 = rng.chance(if flavor == Flavor::Optimizer { 60 } else { 35 });
    let allow2 = rng.chance(25);
    // stacks 1/2 as *targets* (output) are always welcome
    if rng.chance(85) {
        stacks.push(1);
    }
    if rng.chance(40) {
        stacks.push(2);
    }
    if rng.chance(35) {
        stacks.push(0);
    }
    // a stack that may be selected must be nameable
    if allow0 && !stacks.contains(&0) {
        stacks.push(0);
    }
    if allow1 && !stacks.contains(&1) {
        stacks.push(1);
    }
    if allow2 && !stacks.contains(&2) {
        stacks.push(2);
    }
    let n_high = rng.usize(0, 4);
    for _ in 0..n_high {
        let v = if rng.chance(80) { rng.usize(4, 9) } else { rng.usize(10, 3000) };
        stacks.push(v);
    }
    let mut label_pool: Vec<(usize, usize)> = Vec::new();
    for _ in 0..rng.usize(1, 3) {
        let h = rng.usize(1, 3);
        let d = *rng.pick(&stacks);
        label_pool.push((h, d));
    }
    let mut hearts: Vec<u8> = Vec::new();
    for _ in 0..rng.usize(1, 3) {
        hearts.push(rng.range(2, 12) as u8);
    }
    let label_heavy = rng.chance(20);
    if label_heavy {
        label_pool.truncate(rng.usize(1, 2));
        hearts.truncate(2);
        if hearts.len() < 2 {
            hearts.push(rng.range(2, 12) as u8);
        }
    }
    Swarm {
        kind_w,
        stacks,
        label_pool,
        hearts,
        label_heavy,
        area_pct: match flavor {
            _ if label_heavy => rng.range(50, 80),
            Flavor::Compile => rng.range(10, 70),
            _ => rng.range(10, 60),
        },
        ret_pct: if label_heavy { rng.range(0, 10) } else { rng.range(0, 30) },
        big_h_pct: if rng.chance(20) { rng.range(1, 10) } else { 0 },
        multi_pct: rng.range(10, 50),
        allow_select_io: [allow0, allow1, allow2],
        deep_area_pct: if rng.chance(15) { 20 } else { 2 },
        max_d: usize::MAX,
    }
}

fn gen_leaf(rng: &mut Rng, sw: &Swarm) -> RArea {
    let r = rng.below(100);
    if sw.label_heavy && r >= 10 && r < 90 {
        return RArea::Leaf(*rng.pick(&sw.hearts));
    }
    if r < 25 {
        RArea::Nil
    } else if r < 25 + sw.ret_pct {
        RArea::Leaf(13)
    } else if rng.chance(85) {
        RArea::Leaf(*rng.pick(&sw.hearts))
    } else {
        RArea::Leaf(rng.range(2, 12) as u8)
    }
}

/// B := H ('!' B)?
fn gen_b(rng: &mut Rng, sw: &Swarm, max_ops: &mut usize) -> RArea {
    let mut items = vec![gen_leaf(rng, sw)];
    while *max_ops > 0 && rng.chance(if items.len() == 1 { 30 } else { sw.deep_area_pct.max(15) }) {
        items.push(gen_leaf(rng, sw));
        *max_ops -= 1;
    }
    let mut t = items.pop().unwrap();
    while let Some(l) = items.pop() {
        t = RArea::Node(1, Box::new(l), Box::new(t));
    }
    t
}

/// Q := B ('?' Q)?
pub fn gen_area(rng: &mut Rng, sw: &Swarm, max_ops: usize) -> RArea {
    let mut left = max_ops;
    let mut items = vec![gen_b(rng, sw, &mut left)];
    while left > 0 && rng.chance(if items.len() == 1 { 55 } else { sw.deep_area_pct.max(20) }) {
        left -= 1;
        items.push(gen_b(rng, sw, &mut left));
    }
    let mut t = items.pop().unwrap();
    while let Some(l) = items.pop() {
        t = RArea::Node(0, Box::new(l), Box::new(t));
    }
    t
}

pub fn gen_cmd(rng: &mut Rng, sw: &Swarm, flavor: Flavor) -> Cmd {
    let kind = rng.weighted(&sw.kind_w) as u8;
    let has_area = rng.chance(sw.area_pct);
    let mut h;
    let mut d;
    if has_area && rng.chance(if sw.label_heavy { 90 } else { 60 }) {
        let (ph, pd) = *rng.pick(&sw.label_pool);
        h = ph;
        d = pd;
    } else {
        h = match rng.below(100) {
            0..=54 => 1,
            55..=79 => 2,
            80..=92 => 3,
            _ => rng.usize(4, 6),
        };
        if sw.big_h_pct > 0 && rng.chance(sw.big_h_pct) {
            h = rng.usize(7, 600);
        }
        d = match kind {
            0 => match rng.below(100) {
                // a pushed value h*d: digits, letters, controls, big code points
                0..=39 => rng.usize(0, 12),
                40..=69 => rng.usize(13, 130),
                70..=79 => *rng.pick(&sw.stacks),
                80..=93 => rng.usize(131, 3000),
                _ => rng.usize(3001, 70000),
            },
            _ => {
                if rng.chance(90) {
                    *rng.pick(&sw.stacks)
                } else {
                    rng.usize(0, 12)
                }
            }
        };
    }
    if kind == 5 {
        // selecting an I/O stack is a per-program decision
        if d <= 2 && !sw.allow_select_io[d] {
            d = 3 + (d % 2) * rng.usize(1, 4);
        }
        if flavor == Flavor::InputFree && d == 0 {
            d = 3;
        }
    }
    if (kind == 3 || kind == 4) && h == 1 && rng.chance(sw.multi_pct) {
        h = rng.usize(2, 4);
    }
    if d > sw.max_d {
        d = 3 + d % sw.max_d.max(1);
    }
    let area = if has_area { gen_area(rng, sw, 6) } else { RArea::Nil };
    Cmd::new(kind, h, d, area)
}

pub fn gen_program(rng: &mut Rng, sw: &Swarm, flavor: Flavor, max_cmds: usize) -> Vec<Cmd> {
    let n = match rng.below(100) {
        0..=9 => rng.usize(1, 3),
        10..=59 => rng.usize(3, max_cmds.min(8).max(3)),
        _ => rng.usize(3, max_cmds.max(3)),
    };
    let mut v: Vec<Cmd> = Vec::with_capacity(n);
    // a little seeding so that stacks are not empty all the time
    for i in 0..n {
        if i < 3 && rng.chance(50) {
            let h = rng.usize(1, 4);
            let d = rng.usize(1, 40);
            v.push(Cmd::new(0, h, d, RArea::Nil));
        } else {
            v.push(gen_cmd(rng, sw, flavor));
        }
    }
    v
}

/// Hazard templates for the optimiser (C02/C10): spliced into a random program.
pub fn optimizer_hazard(rng: &mut Rng, v: &mut Vec<Cmd>) {
    let heart = rng.range(2, 12) as u8;
    let pos = rng.usize(0, v.len());
    let mut ins: Vec<Cmd> = Vec::new();
    match rng.below(9) {
        0 => {
            // counted loop that prints each round: more jumps than the speculation budget
            //   형*N | H: 형.♥ | 흣.... | 하앙... | 형*65 | 항. | 흑... | J: 형.??♥
            // around the pre-execution's jump budget, exactly at it, well beyond, or small
            let n = match rng.below(10) {
                0..=2 => *rng.pick(&[98usize, 99, 100, 101, 102, 103]),
                3..=6 => rng.usize(95, 260),
                _ => rng.usize(2, 94),
            };
            let ch = rng.usize(33, 126);
            let junk = rng.usize(4, 8);
            ins.push(Cmd::new(0, n, 1, RArea::Nil));
            ins.push(Cmd::new(0, 1, 1, RArea::Leaf(heart)));
            ins.push(Cmd::new(3, 1, junk, RArea::Nil));
            ins.push(Cmd::new(1, 2, 3, RArea::Nil));
            ins.push(Cmd::new(0, 1, ch, RArea::Nil));
            ins.push(Cmd::new(1, 1, if rng.chance(85) { 1 } else { 2 }, RArea::Nil));
            ins.push(Cmd::new(5, 1, 3, RArea::Nil));
            ins.push(Cmd::new(
                0,
                1,
                1,
                RArea::Node(
                    0,
                    Box::new(RArea::Nil),
                    Box::new(RArea::Node(0, Box::new(RArea::Nil), Box::new(RArea::Leaf(heart)))),
                ),
            ));
        }
        1 => {
            // output then a pop from an I/O stack: speculation abandoned after output
            ins.push(Cmd::new(0, 2, rng.usize(20, 60), RArea::Nil));
            ins.push(Cmd::new(1, 1, 1, RArea::Nil));
            ins.push(Cmd::new(5, 1, rng.usize(0, 2), RArea::Nil));
            ins.push(Cmd::new(1, 1, 3, RArea::Nil));
        }
        2 => {
            // select a high stack last, then jump back to code that uses it
            let s = rng.usize(4, 9);
            ins.push(Cmd::new(0, 3, 11, RArea::Leaf(heart)));
            ins.push(Cmd::new(5, 1, s, RArea::Nil));
            ins.push(Cmd::new(0, 3, 11, RArea::Leaf(heart)));
        }
        3 => {
            // two never-selected high stacks written with different values, read back later
            let a = rng.usize(4, 9);
            let b = a + rng.usize(1, 5);
            ins.push(Cmd::new(0, 2, 33, RArea::Nil));
            ins.push(Cmd::new(5, 1, a, RArea::Nil));
            ins.push(Cmd::new(5, 1, 3, RArea::Nil));
            ins.push(Cmd::new(0, 2, 40, RArea::Nil));
            ins.push(Cmd::new(5, 2, b, RArea::Nil));
            ins.push(Cmd::new(5, 1, 3, RArea::Nil));
        }
        4 => {
            // multi-operand negate / reciprocal on distinct operands, then print them
            let k = rng.usize(3, 4) as u8;
            ins.push(Cmd::new(0, 1, 49, RArea::Nil));
            ins.push(Cmd::new(0, 1, 50, RArea::Nil));
            ins.push(Cmd::new(0, 1, 51, RArea::Nil));
            ins.push(Cmd::new(k, 3, 4, RArea::Nil));
            ins.push(Cmd::new(k, 3, 4, RArea::Nil));
            ins.push(Cmd::new(1, 1, 1, RArea::Nil));
            ins.push(Cmd::new(1, 1, 1, RArea::Nil));
            ins.push(Cmd::new(1, 1, 1, RArea::Nil));
        }
        5 => {
            // read input in the middle
            ins.push(Cmd::new(5, 1, 0, RArea::Nil));
            ins.push(Cmd::new(1, 1, 1, RArea::Nil));
            ins.push(Cmd::new(5, 1, 3, RArea::Nil));
        }
        6 => {
            // exit through stack 1/2 after some output
            ins.push(Cmd::new(0, 1, 66, RArea::Nil));
            ins.push(Cmd::new(1, 1, 1, RArea::Nil));
            ins.push(Cmd::new(5, 1, rng.usize(1, 2), RArea::Nil));
            ins.push(Cmd::new(1, 1, 3, RArea::Nil));
        }
        7 => {
            // tight infinite loop with small values
            ins.push(Cmd::new(0, 1, 1, RArea::Leaf(heart)));
            ins.push(Cmd::new(1, 1, 9, RArea::Nil));
            ins.push(Cmd::new(0, 1, 1, RArea::Leaf(heart)));
        }
        _ => {
            // pop inside an area while an I/O stack is selected
            ins.push(Cmd::new(0, 1, 5, RArea::Nil));
            ins.push(Cmd::new(
                5,
                1,
                rng.usize(0, 2),
                RArea::Node(rng.below(2) as u8, Box::new(RArea::Leaf(heart)), Box::new(RArea::Nil)),
            ));
        }
    }
    for (i, c) in ins.into_iter().enumerate() {
        v.insert((pos + i).min(v.len()), c);
    }
}

const BOUNDARY: [u32; 14] = [
    0x0, 0x7F, 0x80, 0x7FF, 0x800, 0xD7FF, 0xE000, 0xFFFF, 0x10000, 0x10FFFF, 0xA, 0xD, 0x20, 0xAC00,
];

pub fn gen_char(rng: &mut Rng) -> char {
    let c = match rng.below(100) {
        0..=44 => rng.range(0x20, 0x7E) as u32,
        45..=54 => *rng.pick(&BOUNDARY),
        55..=69 => rng.range(0xAC00, 0xD7A3) as u32,
        70..=79 => rng.range(0x80, 0x7FF) as u32,
        80..=89 => rng.range(0x800, 0xFFFF) as u32,
        90..=96 => rng.range(0x10000, 0x10FFFF) as u32,
        _ => rng.range(0, 0x1F) as u32,
    };
    char::from_u32(c).unwrap_or('\u{FFFD}')
}

/// Valid UTF-8 stdin text.
pub fn gen_stdin(rng: &mut Rng, max_chars: usize) -> Vec<u8> {
    let mut s = String::new();
    match rng.below(100) {
        0..=14 => {}
        15..=24 => {
            // a single unterminated line
            for _ in 0..rng.usize(1, 8) {
                let c = gen_char(rng);
                if c != '\n' {
                    s.push(c);
                }
            }
        }
        _ => {
            let lines = rng.usize(1, 6);
            let crlf = rng.chance(20);
            for i in 0..lines {
                let n = if rng.chance(15) { 0 } else { rng.usize(1, (max_chars / lines).max(1)) };
                for _ in 0..n {
                    let c = gen_char(rng);
                    if c != '\n' {
                        s.push(c);
                    }
                }
                if i + 1 < lines || rng.chance(70) {
                    if crlf {
                        s.push('\r');
                    }
                    s.push('\n');
                }
            }
        }
    }
    if rng.chance(6) {
        // a dictionary string at the start, at the end, on a line of its own or in the middle
        let m = magic(rng);
        match rng.below(4) {
            0 => s.insert_str(0, m),
            1 => s.push_str(m),
            2 => {
                s.push('\n');
                s.push_str(m);
                s.push('\n');
            }
            _ => {
                let cs: Vec<char> = s.chars().collect();
                let at = rng.usize(0, cs.len());
                s = cs[..at].iter().collect::<String>() + m + &cs[at..].iter().collect::<String>();
            }
        }
    }
    s.into_bytes()
}

/// Swarm fault plan: a random subset of fault kinds enabled; `fault_free` forces none.
pub fn gen_plan(rng: &mut Rng, fault_free: bool) -> Plan {
    let mut p = Plan::default();
    p.key = rng.next();
    if fault_free {
        return p;
    }
    if rng.chance(60) {
        p.max_chunk = match rng.below(3) {
            0 => 1,
            1 => rng.usize(2, 4),
            _ => rng.usize(5, 40),
        };
    }
    if rng.chance(40) {
        p.read_eintr_pct = rng.range(5, 40) as u8;
    }
    p.bufcap = match rng.below(4) {
        0 => rng.usize(1, 4),
        1 => rng.usize(5, 64),
        _ => 8192,
    };
    if rng.chance(50) {
        p.short_write_pct = rng.range(5, 40) as u8;
    }
    if rng.chance(40) {
        p.write_eintr_pct = rng.range(5, 30) as u8;
    }
    p
}

/// h, d with h * d == v and h + d minimal (compact spelling of a large count)
pub fn factor_pair(v: usize) -> (usize, usize) {
    let mut best = (1usize, v);
    let mut i = 1usize;
    while i * i <= v {
        if v % i == 0 {
            best = (i, v / i);
        }
        i += 1;
    }
    best
}

/// A terminating counted loop (n rounds, one jump each) with an optional ♡ return
/// after it; used where programs must terminate (C03).
pub fn small_loop(rng: &mut Rng, v: &mut Vec<Cmd>) {
    let heart = rng.range(2, 12) as u8;
    let n = rng.usize(1, 6);
    let junk = rng.usize(4, 8);
    let ch = rng.usize(33, 126);
    let pos = rng.usize(0, v.len());
    let mut ins = vec![
        Cmd::new(5, 1, 3, RArea::Nil),
        Cmd::new(0, n, 1, RArea::Nil),
        Cmd::new(0, 1, 1, RArea::Leaf(heart)),
        Cmd::new(3, 1, junk, RArea::Nil),
        Cmd::new(1, 2, 3, RArea::Nil),
        Cmd::new(0, 1, ch, RArea::Nil),
        Cmd::new(1, 1, 1, RArea::Nil),
        Cmd::new(5, 1, 3, RArea::Nil),
        Cmd::new(
            0,
            1,
            1,
            RArea::Node(0, Box::new(RArea::Nil), Box::new(RArea::Node(0, Box::new(RArea::Nil), Box::new(RArea::Leaf(heart))))),
        ),
    ];
    if rng.chance(60) {
        if rng.chance(60) {
            // input is needed here: a level-2 pre-execution stops with a pending jump source
            ins.push(Cmd::new(5, 1, 0, RArea::Nil));
            ins.push(Cmd::new(5, 1, 3, RArea::Nil));
        }
        // after the loop: go back to the last jump source while the top is small
        let k = rng.usize(0, 5);
        ins.push(Cmd::new(0, 1, k, RArea::Nil));
        let t = rng.below(2) as u8;
        ins.push(Cmd::new(1, 1, 3, RArea::Node(t, Box::new(RArea::Leaf(13)), Box::new(RArea::Nil))));
    }
    for (i, c) in ins.into_iter().enumerate() {
        v.insert((pos + i).min(v.len()), c);
    }
}

/// The bare counted loop (n rounds) appended to `v`; leaves [0] on stack 3 and a pending jump source.
pub fn small_loop_core(rng: &mut Rng, v: &mut Vec<Cmd>, n: usize) {
    let heart = rng.range(2, 12) as u8;
    small_loop_with(rng, v, n, heart, 1);
}

/// Counted loop with an explicit label: heart and step (the label's count; the counter goes down by `step`).
pub fn small_loop_with(rng: &mut Rng, v: &mut Vec<Cmd>, n: usize, heart: u8, step: usize) {
    let junk = rng.usize(4, 8);
    let ch = rng.usize(33, 126);
    v.push(Cmd::new(0, n, step, RArea::Nil));
    v.push(Cmd::new(0, 1, step, RArea::Leaf(heart)));
    v.push(Cmd::new(3, 1, junk, RArea::Nil));
    v.push(Cmd::new(1, 2, 3, RArea::Nil));
    v.push(Cmd::new(0, 1, ch, RArea::Nil));
    v.push(Cmd::new(1, 1, 1, RArea::Nil));
    v.push(Cmd::new(5, 1, 3, RArea::Nil));
    v.push(Cmd::new(
        0,
        1,
        step,
        RArea::Node(0, Box::new(RArea::Nil), Box::new(RArea::Node(0, Box::new(RArea::Nil), Box::new(RArea::Leaf(heart))))),
    ));
}

/// Read some input in the middle of a program: select stdin, consume, come back.
pub fn reader_template(rng: &mut Rng, v: &mut Vec<Cmd>) {
    let pos = rng.usize(0, v.len());
    let mut ins = vec![Cmd::new(5, 1, 0, RArea::Nil)];
    for _ in 0..rng.usize(1, 4) {
        let kind = *rng.pick(&[1u8, 1, 1, 2, 3, 5]);
        let h = rng.usize(1, 3);
        let d = *rng.pick(&[1usize, 1, 2, 3, 3, 4, 0]);
        let d = if kind == 5 && d <= 2 { 3 } else { d };
        let area = if rng.chance(25) {
            RArea::Node(rng.below(2) as u8, Box::new(RArea::Nil), Box::new(RArea::Nil))
        } else {
            RArea::Nil
        };
        ins.push(Cmd::new(kind, h, d, area));
    }
    if rng.chance(70) {
        ins.push(Cmd::new(5, 1, 3, RArea::Nil));
    }
    for (i, c) in ins.into_iter().enumerate() {
        v.insert((pos + i).min(v.len()), c);
    }
}

/// Arithmetic-heavy prefix: multi-limb integers at the 2^32 limb boundary, fractions with
/// common factors, negatives; leaves the results on stack 3 (and prints some as text).
pub fn arith_template(rng: &mut Rng, v: &mut Vec<Cmd>) {
    let mut ins: Vec<Cmd> = Vec::new();
    let push = |ins: &mut Vec<Cmd>, val: usize| {
        let (h, d) = factor_pair(val);
        ins.push(Cmd::new(0, h, d, RArea::Nil));
    };
    const SEEDS: [usize; 12] = [65536, 65535, 65537, 46341, 32768, 4096, 255, 1000, 999, 77, 6, 2];
    for _ in 0..rng.usize(2, 5) {
        match rng.below(7) {
            0 => {
                // 2^32 and neighbours
                push(&mut ins, 65536);
                push(&mut ins, 65536);
                ins.push(Cmd::new(2, 2, 3, RArea::Nil));
                if rng.chance(60) {
                    // +-1
                    push(&mut ins, 1);
                    if rng.chance(50) {
                        ins.push(Cmd::new(3, 1, rng.usize(4, 7), RArea::Nil));
                    }
                    ins.push(Cmd::new(1, 2, 3, RArea::Nil));
                }
            }
            1 => {
                // product of k seeds
                let k = rng.usize(2, 4);
                for _ in 0..k {
                    push(&mut ins, *rng.pick(&SEEDS));
                }
                ins.push(Cmd::new(2, k, 3, RArea::Nil));
            }
            2 => {
                // a fraction: a * (1/b), operands restored on the stack
                push(&mut ins, *rng.pick(&SEEDS));
                push(&mut ins, *rng.pick(&SEEDS));
                ins.push(Cmd::new(4, 1, rng.usize(4, 7), RArea::Nil));
                ins.push(Cmd::new(2, 2, 3, RArea::Nil));
            }
            3 => {
                // negate the top two and add
                ins.push(Cmd::new(3, rng.usize(1, 2), 3, RArea::Nil));
                ins.push(Cmd::new(1, 2, 3, RArea::Nil));
            }
            4 => {
                // square the top (duplicate, multiply)
                ins.push(Cmd::new(5, 1, 3, RArea::Nil));
                ins.push(Cmd::new(2, 2, 3, RArea::Nil));
            }
            5 => {
                // reciprocal sum: 1/a + 1/b
                push(&mut ins, *rng.pick(&SEEDS));
                push(&mut ins, *rng.pick(&SEEDS));
                ins.push(Cmd::new(4, 2, rng.usize(4, 7), RArea::Nil));
                ins.push(Cmd::new(1, 2, 3, RArea::Nil));
            }
            _ => {
                // compare the top against a count through a `?`/`!` (value stays: duplicate first)
                ins.push(Cmd::new(5, 1, 3, RArea::Nil));
                let t = rng.below(2) as u8;
                ins.push(Cmd::new(0, rng.usize(1, 3), rng.usize(0, 9), RArea::Node(0, Box::new(RArea::Nil), Box::new(RArea::Node(t, Box::new(RArea::Nil), Box::new(RArea::Nil))))));
            }
        }
    }
    if rng.chance(15) {
        // the value itself to an output stack: a character, a diagnosed encoding error, or (>= 2^32) unspecified
        ins.push(Cmd::new(5, 1, 3, RArea::Nil));
        ins.push(Cmd::new(1, 1, rng.usize(1, 2), RArea::Nil));
    }
    // show something: negated copies print as text on stdout/stderr
    for _ in 0..rng.usize(0, 2) {
        ins.push(Cmd::new(5, 1, 3, RArea::Nil));
        ins.push(Cmd::new(3, 1, rng.usize(1, 2), RArea::Nil));
        ins.push(Cmd::new(1, 1, rng.usize(4, 7), RArea::Nil));
    }
    let pos = if rng.chance(70) { 0 } else { rng.usize(0, v.len()) };
    for (i, c) in ins.into_iter().enumerate() {
        v.insert((pos + i).min(v.len()), c);
    }
}

/// "Goto machine": small values decide conditional hearts that all share one count, so labels
/// collide, jumps go backwards *and* forwards, the first command can be a jump source, and ♡ can
/// return onto the command that evaluates it.  Control-flow coincidences that the general
/// generator reaches once in thousands of runs are the norm here.
pub fn goto_machine(rng: &mut Rng, input_free: bool) -> Vec<Cmd> {
    // two terminating templates for coincidences that random machines only reach in endless loops
    match rng.below(100) {
        0..=9 => return goto_self_return(rng),
        10..=19 => return goto_forward_jump(rng),
        _ => {}
    }
    let n = rng.usize(5, 14);
    let mut pool: Vec<u8> = Vec::new();
    for _ in 0..rng.usize(2, 3) {
        pool.push(rng.range(2, 12) as u8);
    }
    let (gh, gd) = *rng.pick(&[(1usize, 3usize), (1, 3), (3, 1), (1, 4), (2, 2)]);
    let leaf = |rng: &mut Rng, pool: &Vec<u8>| -> RArea {
        match rng.below(10) {
            0 => RArea::Nil,
            1 | 2 => RArea::Leaf(13),
            _ => RArea::Leaf(*rng.pick(pool)),
        }
    };
    // draining machines: every tree ends in "no transfer" on its rightmost leaf, so that NaN (the stack has
    // run empty) falls through and the program ends; the conditions consume the values pushed up front
    let draining = rng.chance(55);
    let goto = |rng: &mut Rng, pool: &Vec<u8>, two: bool| -> Cmd {
        if draining {
            let a = leaf(rng, pool);
            let b = leaf(rng, pool);
            let area = match rng.below(10) {
                0..=3 => RArea::Node(0, Box::new(a), Box::new(RArea::Nil)),
                4..=6 => RArea::Node(1, Box::new(a), Box::new(RArea::Nil)),
                7 | 8 => RArea::Node(0, Box::new(a), Box::new(RArea::Node(1, Box::new(b), Box::new(RArea::Nil)))),
                _ => {
                    if two {
                        RArea::Node(1, Box::new(a), Box::new(RArea::Node(1, Box::new(b), Box::new(RArea::Nil))))
                    } else {
                        a
                    }
                }
            };
            return Cmd::new(1, gh, gd, area);
        }
        let a = leaf(rng, pool);
        let mut b = leaf(rng, pool);
        if two {
            let mut guard = 0;
            while b == a && guard < 8 {
                b = leaf(rng, pool);
                guard += 1;
            }
        }
        let area = match rng.below(10) {
            0 | 1 if !two => a,
            2..=5 => RArea::Node(0, Box::new(a), Box::new(b)),
            6..=8 => RArea::Node(1, Box::new(a), Box::new(b)),
            _ => {
                let c = leaf(rng, pool);
                RArea::Node(0, Box::new(a), Box::new(RArea::Node(1, Box::new(b), Box::new(c))))
            }
        };
        // pop and push back onto the same stack when the command count says stack 3, otherwise junk
        Cmd::new(1, gh, gd, area)
    };
    let mut v: Vec<Cmd> = Vec::new();
    if draining {
        // fuel: small values around the shared count
        let cnt = gh * gd;
        for _ in 0..rng.usize(4, 12) {
            let val = match rng.below(4) {
                0 => cnt,
                1 => cnt + rng.usize(1, 3),
                _ => rng.usize(0, cnt.saturating_sub(1)),
            };
            if val == 0 {
                v.push(Cmd::new(0, 1, 0, RArea::Nil));
            } else {
                let (h, d) = factor_pair(val);
                v.push(Cmd::new(0, h, d, RArea::Nil));
            }
        }
    }
    if !draining && rng.chance(30) && pool.len() >= 2 && pool[0] != pool[1] {
        // the first command becomes a jump source: visit 1 registers A at command 0, a later command
        // jumps back to it, visit 2 takes the other heart B (registered further down: a forward jump
        // from command 0), and a ♡ then returns to command 0
        let (a, b) = (pool[0], pool[1]);
        let t = rng.below(2) as u8;
        v.push(Cmd::new(1, gh, gd, RArea::Node(t, Box::new(RArea::Leaf(b)), Box::new(RArea::Leaf(a)))));
        if rng.chance(40) {
            v.push(Cmd::new(0, 1, rng.usize(33, 90), RArea::Nil));
            v.push(Cmd::new(1, 1, 1, RArea::Nil));
        }
        v.push(Cmd::new(1, gh, gd, RArea::Leaf(b)));
        if rng.chance(70) {
            v.push(Cmd::new(1, gh, gd, RArea::Leaf(13)));
        }
        // the value that decides visit 2: below / equal to the shared count
        let cnt = gh * gd;
        let small = if t == 0 { rng.usize(0, cnt.saturating_sub(1)) } else { cnt };
        let (h, d) = factor_pair(small.max(0));
        if small == 0 {
            v.push(Cmd::new(0, 1, 0, RArea::Nil));
        } else {
            v.push(Cmd::new(0, h, d, RArea::Nil));
        }
        v.push(Cmd::new(1, gh, gd, RArea::Leaf(a)));
        if rng.chance(50) {
            v.push(Cmd::new(1, gh, gd, RArea::Leaf(13)));
        }
    }
    if draining && rng.chance(40) {
        // the first command is a conditional goto (visited first with an empty stack: registers its right-hand label)
        let a = leaf(rng, &pool);
        let b = leaf(rng, &pool);
        v.insert(0, Cmd::new(1, gh, gd, RArea::Node(rng.below(2) as u8, Box::new(a), Box::new(b))));
    }
    for i in 0..n {
        let c = if i == 0 && v.is_empty() && rng.chance(50) {
            goto(rng, &pool, true)
        } else {
            match rng.below(100) {
                0..=44 => Cmd::new(0, rng.usize(1, 2), rng.usize(0, 4), RArea::Nil),
                45..=81 => {
                    let two = rng.chance(60);
                    goto(rng, &pool, two)
                }
                82..=91 => Cmd::new(1, 1, rng.usize(1, 2), RArea::Nil),
                92..=95 => Cmd::new(5, 1, 3, RArea::Nil),
                _ => Cmd::new(0, 1, rng.usize(33, 90), RArea::Nil),
            }
        };
        v.push(c);
    }
    // printable tail so that control-flow differences become visible
    for _ in 0..rng.usize(1, 3) {
        v.push(Cmd::new(0, 1, rng.usize(48, 90), RArea::Nil));
        v.push(Cmd::new(1, 1, 1, RArea::Nil));
    }
    let _ = input_free;
    v
}

fn push_value(v: &mut Vec<Cmd>, val: usize) {
    if val == 0 {
        v.push(Cmd::new(0, 1, 0, RArea::Nil));
    } else {
        let (h, d) = factor_pair(val);
        v.push(Cmd::new(0, h, d, RArea::Nil));
    }
}

/// A command becomes its own latest jump source and then takes ♡ (returns onto itself), a few times,
/// then falls through; terminates.  Shape: fuel, `goto L`, `goto ?(L, !(♡, Nil))`, print.
fn goto_self_return(rng: &mut Rng) -> Vec<Cmd> {
    // 항... pops a value and pushes it back onto stack 3: the neutral carrier; its count is 3
    let cnt = 3usize;
    let (gh, gd) = (1usize, 3usize);
    let l = rng.range(2, 12) as u8;
    let mut v = Vec::new();
    // popped in reverse order of pushing; per visit of the conditional: v1 (< cnt: jump) or v1 then v2 (== cnt: ♡)
    let mut fuel: Vec<usize> = vec![rng.usize(6, 9), cnt + rng.usize(1, 3)];
    for _ in 0..rng.usize(1, 4) {
        fuel.push(cnt);
        fuel.push(cnt + rng.usize(1, 4));
    }
    if rng.chance(70) {
        fuel.push(rng.usize(0, cnt - 1));
    }
    for f in fuel {
        push_value(&mut v, f);
    }
    v.push(Cmd::new(1, gh, gd, RArea::Leaf(l)));
    let t2 = RArea::Node(1, Box::new(RArea::Leaf(13)), Box::new(RArea::Nil));
    v.push(Cmd::new(1, gh, gd, RArea::Node(0, Box::new(RArea::Leaf(l)), Box::new(t2))));
    // show what is left
    for _ in 0..rng.usize(1, 2) {
        v.push(Cmd::new(3, 1, rng.usize(1, 2), RArea::Nil));
        v.push(Cmd::new(1, 1, rng.usize(4, 7), RArea::Nil));
    }
    v
}

/// A label registered at a later command is selected by an earlier one on its second visit: a forward
/// jump; terminates.  Shape: fuel, `h: goto Y`, `i: goto ?(X, Nil)`, `j: goto X`, `k: goto ?(Y, Nil)`, print.
fn goto_forward_jump(rng: &mut Rng) -> Vec<Cmd> {
    let cnt = 3usize;
    let (gh, gd) = (1usize, 3usize);
    let x = rng.range(2, 12) as u8;
    let y = 2 + (x - 2 + 1 + rng.below(10) as u8) % 11;
    let mut v = Vec::new();
    // pops: i(visit 1) >= cnt, k < cnt (jump back), i(visit 2) < cnt (forward jump), k >= cnt (fall through)
    let fuel = [rng.usize(6, 9), cnt + rng.usize(0, 3), rng.usize(0, cnt - 1), rng.usize(0, cnt - 1), cnt + rng.usize(0, 3)];
    for f in fuel {
        push_value(&mut v, f);
    }
    let t = |h: u8| RArea::Node(0, Box::new(RArea::Leaf(h)), Box::new(RArea::Nil));
    v.push(Cmd::new(1, gh, gd, RArea::Leaf(y)));
    v.push(Cmd::new(1, gh, gd, t(x)));
    if rng.chance(50) {
        v.push(Cmd::new(0, 1, rng.usize(48, 90), RArea::Nil));
        v.push(Cmd::new(1, 1, 1, RArea::Nil));
    }
    v.push(Cmd::new(1, gh, gd, RArea::Leaf(x)));
    v.push(Cmd::new(1, gh, gd, t(y)));
    for _ in 0..rng.usize(1, 2) {
        v.push(Cmd::new(3, 1, rng.usize(1, 2), RArea::Nil));
        v.push(Cmd::new(1, 1, rng.usize(4, 7), RArea::Nil));
    }
    v
}

/// Strings with a history of special treatment by terminals, shells, editors and this tool's own
/// vocabulary (dictionary for input generation).
pub const MAGIC: [&str; 24] = [
    "\u{1b}[200~", "\u{1b}[201~", "\u{1b}[A", "\u{1b}[0m", "\u{1b}", "\u{1a}", "\u{4}", "\u{FEFF}", "\r\n", "\r", "\u{0}", "\u{7f}",
    "exit", "clear", "help", "흑.하앙...", "너무 커엇...", "[stdout] ", "[stderr] ", "==> ", "> ", "\\n", "{}", "%s",
];

pub fn magic(rng: &mut Rng) -> &'static str {
    MAGIC[rng.below(MAGIC.len() as u64) as usize]
}

/// The program itself writes a dictionary string (CR LF pairs, escape sequences, the tools' own markers and
/// vocabulary) to stdout or stderr, character by character.
pub fn magic_output(rng: &mut Rng, v: &mut Vec<Cmd>) {
    let m = magic(rng);
    let stream = if rng.chance(80) { 1 } else { 2 };
    let pos = rng.usize(0, v.len());
    let mut ins: Vec<Cmd> = vec![Cmd::new(5, 1, 3, RArea::Nil)];
    if rng.chance(50) {
        push_value(&mut ins, rng.usize(65, 90));
        ins.push(Cmd::new(1, 1, stream, RArea::Nil));
    }
    for c in m.chars() {
        push_value(&mut ins, c as usize);
        ins.push(Cmd::new(1, 1, stream, RArea::Nil));
    }
    if rng.chance(50) {
        push_value(&mut ins, rng.usize(65, 90));
        ins.push(Cmd::new(1, 1, stream, RArea::Nil));
    }
    for (i, c) in ins.into_iter().enumerate() {
        v.insert((pos + i).min(v.len()), c);
    }
}

/// Many completed loops of fewer passes than the per-command jump budget each (aggregate effects).
pub fn many_loops(rng: &mut Rng) -> Vec<Cmd> {
    let mut v = Vec::new();
    for _ in 0..rng.usize(2, 4) {
        push_value(&mut v, rng.usize(2, 60));
    }
    let loops = rng.usize(8, 15);
    for k in 0..loops {
        let rounds = rng.usize(60, 99);
        // every loop leaves its spent counter (0) on the stack: a closer that runs once too often pops one more;
        // labels are distinct per loop (heart x step), otherwise a later loop would jump into an earlier one
        let heart = 2 + (k % 11) as u8;
        let step = 1 + k / 11;
        small_loop_with(rng, &mut v, rounds, heart, step);
        if rng.chance(40) {
            push_value(&mut v, rng.usize(2, 60));
        }
    }
    // dump what the stack holds (more pops than values: the surplus shows as NaN text)
    for _ in 0..loops + 8 {
        v.push(Cmd::new(3, 1, 1, RArea::Nil));
        v.push(Cmd::new(1, 1, rng.usize(4, 8), RArea::Nil));
    }
    v
}

/// A long straight-line program (thousands of commands), all of it pre-executable.
pub fn long_program(rng: &mut Rng) -> Vec<Cmd> {
    let n = rng.usize(2100, 2700);
    let mut v = Vec::with_capacity(n);
    let mut depth = 0usize;
    for i in 0..n {
        if depth > 0 && rng.chance(45) {
            // consume: print one in a hundred, otherwise add up
            if i % 97 == 0 {
                v.push(Cmd::new(1, 1, 1, RArea::Nil));
                depth -= 1;
            } else if depth >= 2 {
                v.push(Cmd::new(1, 2, 3, RArea::Nil));
                depth -= 1;
            } else {
                v.push(Cmd::new(0, 1, rng.usize(48, 57), RArea::Nil));
                depth += 1;
            }
        } else {
            v.push(Cmd::new(0, 1, rng.usize(0, 9), RArea::Nil));
            depth += 1;
        }
    }
    // show the total as text and a marker character
    v.push(Cmd::new(3, 1, 1, RArea::Nil));
    v.push(Cmd::new(0, 1, 90, RArea::Nil));
    v.push(Cmd::new(1, 1, 1, RArea::Nil));
    v
}

const HALF: [usize; 14] = [0, 0, 1, 2, 255, 256, 4096, 32767, 32768, 32769, 65534, 65535, 1000, 46341];

/// Push one 32-bit limb `hi * 2^16 + lo` (hi, lo from a set of carry/borrow-relevant halves) onto stack 3.
fn push_limb(rng: &mut Rng, v: &mut Vec<Cmd>) {
    let hi = *rng.pick(&HALF);
    let lo = *rng.pick(&HALF);
    push_value(v, hi);
    push_value(v, 65536);
    v.push(Cmd::new(2, 2, 3, RArea::Nil));
    push_value(v, lo);
    v.push(Cmd::new(1, 2, 3, RArea::Nil));
}

/// Push a multi-limb integer built limb by limb: (((l_k) * 2^32 + l_{k-1}) * 2^32 + ...).
fn push_limbs(rng: &mut Rng, v: &mut Vec<Cmd>, limbs: usize) {
    push_limb(rng, v);
    for _ in 1..limbs {
        push_value(v, 65536);
        push_value(v, 65536);
        v.push(Cmd::new(2, 2, 3, RArea::Nil));
        v.push(Cmd::new(2, 2, 3, RArea::Nil));
        push_limb(rng, v);
        v.push(Cmd::new(1, 2, 3, RArea::Nil));
    }
}

/// Limb grid: two multi-limb integers whose 32-bit words come from {0, 1, 2^31, 2^32-1, ...} are multiplied,
/// added with opposite signs, divided and compared, in both operand orders (carry / borrow / zero-word paths
/// of the big-integer code).  Everything stays on stack 3; the lock-step comparison sees every result.
pub fn limb_grid(rng: &mut Rng) -> Vec<Cmd> {
    let mut v = Vec::new();
    let la = rng.usize(1, 4);
    let lb = rng.usize(1, 4);
    push_limbs(rng, &mut v, la);
    push_limbs(rng, &mut v, lb);
    for _ in 0..rng.usize(1, 3) {
        match rng.below(6) {
            0 => {
                // product (top is the left operand)
                v.push(Cmd::new(5, 2, 4, RArea::Nil));
                v.push(Cmd::new(5, 1, 3, RArea::Nil));
                v.push(Cmd::new(2, 2, 3, RArea::Nil));
            }
            1 => {
                // a - b: negate the top, add
                v.push(Cmd::new(3, 1, 9, RArea::Nil));
                v.push(Cmd::new(1, 2, 3, RArea::Nil));
            }
            2 => {
                // b - a: negate the one below the top (negate both, negate the top again), add
                v.push(Cmd::new(3, 2, 9, RArea::Nil));
                v.push(Cmd::new(3, 1, 9, RArea::Nil));
                v.push(Cmd::new(1, 2, 3, RArea::Nil));
            }
            3 => {
                // quotient a / b as a fraction: reciprocal of the top, multiply
                v.push(Cmd::new(4, 1, 9, RArea::Nil));
                v.push(Cmd::new(2, 2, 3, RArea::Nil));
            }
            4 => {
                // sum
                v.push(Cmd::new(1, 2, 3, RArea::Nil));
            }
            _ => {
                // square the top
                v.push(Cmd::new(5, 1, 3, RArea::Nil));
                v.push(Cmd::new(2, 2, 3, RArea::Nil));
            }
        }
        if rng.chance(50) {
            let l = rng.usize(1, 3);
            push_limbs(rng, &mut v, l);
        }
    }
    // the result as text on stdout (through a negated copy: negative values print as the text of their negation)
    v.push(Cmd::new(5, 1, 3, RArea::Nil));
    v.push(Cmd::new(3, 1, 1, RArea::Nil));
    v
}

/// Output edge family: something is written, then a value that is not a plain character — 2^32·k plus a
/// low word, a surrogate, a value above U+10FFFF — is built and written to an output stack (as a sum or
/// by duplication), then a little more is written.  Terminates; input-free.
pub fn output_edge(rng: &mut Rng) -> Vec<Cmd> {
    let mut v = Vec::new();
    for _ in 0..rng.usize(0, 2) {
        push_value(&mut v, rng.usize(33, 126));
        v.push(Cmd::new(1, 1, rng.usize(1, 2), RArea::Nil));
    }
    match rng.below(4) {
        0 | 1 => {
            let low = *rng.pick(&[65usize, 0xAC00, 0x10FFFF, 0xD800, 0xDFFF, 0x110000, 0x7F, 0, 10]);
            push_value(&mut v, 65536);
            push_value(&mut v, 65536);
            v.push(Cmd::new(2, 2, 3, RArea::Nil));
            if rng.chance(40) {
                push_value(&mut v, rng.usize(2, 70_000));
                v.push(Cmd::new(2, 2, 3, RArea::Nil));
            }
            push_value(&mut v, low);
            v.push(Cmd::new(1, 2, 3, RArea::Nil));
        }
        2 => push_value(&mut v, *rng.pick(&[0xD800usize, 0xDBFF, 0xDC00, 0xDFFF, 0xDABC])),
        _ => push_value(&mut v, 0x110000 + rng.usize(0, 5000)),
    }
    if rng.chance(70) {
        v.push(Cmd::new(1, 1, rng.usize(1, 2), RArea::Nil));
    } else {
        v.push(Cmd::new(5, rng.usize(1, 3), rng.usize(1, 2), RArea::Nil));
        v.push(Cmd::new(5, 1, 3, RArea::Nil));
    }
    for _ in 0..rng.usize(0, 2) {
        push_value(&mut v, rng.usize(33, 126));
        v.push(Cmd::new(1, 1, 1, RArea::Nil));
    }
    v
}
