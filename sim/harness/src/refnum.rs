//! Reference arithmetic: sign-magnitude big integers and canonical rationals with
//! NaN.  Shares no code with /repo/src/number; validated against Python's int and
//! fractions.Fraction by `vsim selftest-refnum` (see /verif/tools/refnum_check.py).

use std::cmp::Ordering;

#[derive(Clone, Debug, PartialEq, Eq)]
pub struct Int {
    neg: bool,
    mag: Vec<u32>, // little endian, no trailing zero limbs; empty = 0
}

fn trim(v: &mut Vec<u32>) {
    while let Some(&0) = v.last() {
        v.pop();
    }
}

fn cmp_mag(a: &[u32], b: &[u32]) -> Ordering {
    if a.len() != b.len() {
        return a.len().cmp(&b.len());
    }
    for i in (0..a.len()).rev() {
        if a[i] != b[i] {
            return a[i].cmp(&b[i]);
        }
    }
    Ordering::Equal
}

fn add_mag(a: &[u32], b: &[u32]) -> Vec<u32> {
    let (a, b) = if a.len() >= b.len() { (a, b) } else { (b, a) };
    let mut r = Vec::with_capacity(a.len() + 1);
    let mut carry = 0u64;
    for i in 0..a.len() {
        let s = a[i] as u64 + if i < b.len() { b[i] as u64 } else { 0 } + carry;
        r.push(s as u32);
        carry = s >> 32;
    }
    if carry > 0 {
        r.push(carry as u32);
    }
    r
}

/// a - b, requires a >= b
fn sub_mag(a: &[u32], b: &[u32]) -> Vec<u32> {
    let mut r = Vec::with_capacity(a.len());
    let mut borrow = 0i64;
    for i in 0..a.len() {
        let mut d = a[i] as i64 - if i < b.len() { b[i] as i64 } else { 0 } - borrow;
        if d < 0 {
            d += 1 << 32;
            borrow = 1;
        } else {
            borrow = 0;
        }
        r.push(d as u32);
    }
    debug_assert_eq!(borrow, 0);
    trim(&mut r);
    r
}

fn mul_mag(a: &[u32], b: &[u32]) -> Vec<u32> {
    if a.is_empty() || b.is_empty() {
        return Vec::new();
    }
    let mut r = vec![0u32; a.len() + b.len()];
    for i in 0..a.len() {
        let mut carry = 0u64;
        for j in 0..b.len() {
            let t = a[i] as u64 * b[j] as u64 + r[i + j] as u64 + carry;
            r[i + j] = t as u32;
            carry = t >> 32;
        }
        let mut k = i + b.len();
        while carry > 0 {
            let t = r[k] as u64 + carry;
            r[k] = t as u32;
            carry = t >> 32;
            k += 1;
        }
    }
    trim(&mut r);
    r
}

fn bits_mag(a: &[u32]) -> usize {
    match a.last() {
        None => 0,
        Some(&t) => (a.len() - 1) * 32 + (32 - t.leading_zeros() as usize),
    }
}

fn shl1_add(a: &mut Vec<u32>, bit: u32) {
    let mut carry = bit;
    for x in a.iter_mut() {
        let n = (*x << 1) | carry;
        carry = *x >> 31;
        *x = n;
    }
    if carry > 0 {
        a.push(carry);
    }
}

/// (quotient, remainder) of magnitudes, b != 0; plain binary long division
fn divrem_mag(a: &[u32], b: &[u32]) -> (Vec<u32>, Vec<u32>) {
    assert!(!b.is_empty());
    if cmp_mag(a, b) == Ordering::Less {
        return (Vec::new(), a.to_vec());
    }
    if b.len() == 1 {
        // fast path: single-limb divisor
        let d = b[0] as u64;
        let mut q = vec![0u32; a.len()];
        let mut rem = 0u64;
        for i in (0..a.len()).rev() {
            let cur = (rem << 32) | a[i] as u64;
            q[i] = (cur / d) as u32;
            rem = cur % d;
        }
        trim(&mut q);
        let mut r = vec![rem as u32];
        trim(&mut r);
        return (q, r);
    }
    let n = bits_mag(a);
    let mut q = vec![0u32; a.len()];
    let mut r: Vec<u32> = Vec::new();
    for i in (0..n).rev() {
        let bit = (a[i / 32] >> (i % 32)) & 1;
        shl1_add(&mut r, bit);
        trim(&mut r);
        if cmp_mag(&r, b) != Ordering::Less {
            r = sub_mag(&r, b);
            q[i / 32] |= 1 << (i % 32);
        }
    }
    trim(&mut q);
    (q, r)
}

impl Int {
    pub fn zero() -> Int {
        Int { neg: false, mag: Vec::new() }
    }
    pub fn from_u64(n: u64) -> Int {
        let mut mag = vec![n as u32, (n >> 32) as u32];
        trim(&mut mag);
        Int { neg: false, mag }
    }
    pub fn from_i64(n: i64) -> Int {
        let mut r = Int::from_u64(n.unsigned_abs());
        r.neg = n < 0;
        r
    }
    pub fn one() -> Int {
        Int::from_u64(1)
    }
    pub fn is_zero(&self) -> bool {
        self.mag.is_empty()
    }
    pub fn is_neg(&self) -> bool {
        self.neg
    }
    pub fn is_one(&self) -> bool {
        !self.neg && self.mag.len() == 1 && self.mag[0] == 1
    }
    pub fn bits(&self) -> usize {
        bits_mag(&self.mag)
    }
    pub fn neg(&self) -> Int {
        Int { neg: !self.neg && !self.is_zero(), mag: self.mag.clone() }
    }
    pub fn abs(&self) -> Int {
        Int { neg: false, mag: self.mag.clone() }
    }
    fn norm(mut self) -> Int {
        trim(&mut self.mag);
        if self.mag.is_empty() {
            self.neg = false;
        }
        self
    }
    pub fn add(&self, o: &Int) -> Int {
        if self.neg == o.neg {
            return Int { neg: self.neg, mag: add_mag(&self.mag, &o.mag) }.norm();
        }
        match cmp_mag(&self.mag, &o.mag) {
            Ordering::Equal => Int::zero(),
            Ordering::Greater => Int { neg: self.neg, mag: sub_mag(&self.mag, &o.mag) }.norm(),
            Ordering::Less => Int { neg: o.neg, mag: sub_mag(&o.mag, &self.mag) }.norm(),
        }
    }
    pub fn sub(&self, o: &Int) -> Int {
        self.add(&o.neg())
    }
    pub fn mul(&self, o: &Int) -> Int {
        Int { neg: self.neg != o.neg, mag: mul_mag(&self.mag, &o.mag) }.norm()
    }
    /// truncating division and remainder with the sign of the dividend
    pub fn divrem(&self, o: &Int) -> (Int, Int) {
        let (q, r) = divrem_mag(&self.mag, &o.mag);
        (Int { neg: self.neg != o.neg, mag: q }.norm(), Int { neg: self.neg, mag: r }.norm())
    }
    pub fn gcd(&self, o: &Int) -> Int {
        let mut a = self.abs();
        let mut b = o.abs();
        while !b.is_zero() {
            let (_, r) = a.divrem(&b);
            a = b;
            b = r;
        }
        a
    }
    pub fn cmp(&self, o: &Int) -> Ordering {
        match (self.neg, o.neg) {
            (false, true) => Ordering::Greater,
            (true, false) => Ordering::Less,
            (false, false) => cmp_mag(&self.mag, &o.mag),
            (true, true) => cmp_mag(&o.mag, &self.mag),
        }
    }
    /// value if it fits in u64
    pub fn to_u64(&self) -> Option<u64> {
        if self.neg || self.mag.len() > 2 {
            return None;
        }
        let lo = *self.mag.first().unwrap_or(&0) as u64;
        let hi = *self.mag.get(1).unwrap_or(&0) as u64;
        Some(lo | (hi << 32))
    }
    pub fn to_dec(&self) -> String {
        if self.is_zero() {
            return "0".to_string();
        }
        let mut digits: Vec<u8> = Vec::new();
        let mut cur = self.mag.clone();
        while !cur.is_empty() {
            // divide by 10^9
            let mut rem = 0u64;
            for i in (0..cur.len()).rev() {
                let c = (rem << 32) | cur[i] as u64;
                cur[i] = (c / 1_000_000_000) as u32;
                rem = c % 1_000_000_000;
            }
            trim(&mut cur);
            let mut r = rem;
            for _ in 0..9 {
                digits.push(b'0' + (r % 10) as u8);
                r /= 10;
            }
        }
        while digits.len() > 1 && *digits.last().unwrap() == b'0' {
            digits.pop();
        }
        if self.neg {
            digits.push(b'-');
        }
        digits.reverse();
        String::from_utf8(digits).unwrap()
    }
    pub fn from_dec(s: &str) -> Option<Int> {
        let (neg, body) = match s.strip_prefix('-') {
            Some(b) => (true, b),
            None => (false, s),
        };
        if body.is_empty() || !body.bytes().all(|b| b.is_ascii_digit()) {
            return None;
        }
        let ten = Int::from_u64(10);
        let mut r = Int::zero();
        for b in body.bytes() {
            r = r.mul(&ten).add(&Int::from_u64((b - b'0') as u64));
        }
        if neg {
            r = r.neg();
        }
        Some(r)
    }
}

/// Canonical rational or NaN.
#[derive(Clone, Debug, PartialEq, Eq)]
pub enum Rat {
    NaN,
    V { n: Int, d: Int }, // d > 0, gcd(|n|, d) = 1
}

pub const NAN_TEXT: &str = "너무 커엇...";

impl Rat {
    pub fn int(n: i64) -> Rat {
        Rat::V { n: Int::from_i64(n), d: Int::one() }
    }
    pub fn from_u64(n: u64) -> Rat {
        Rat::V { n: Int::from_u64(n), d: Int::one() }
    }
    pub fn make(n: Int, d: Int) -> Rat {
        if d.is_zero() {
            return Rat::NaN;
        }
        let (mut n, mut d) = (n, d);
        if d.is_neg() {
            n = n.neg();
            d = d.neg();
        }
        let g = n.gcd(&d);
        if !g.is_one() {
            n = n.divrem(&g).0;
            d = d.divrem(&g).0;
        }
        Rat::V { n, d }
    }
    pub fn is_nan(&self) -> bool {
        matches!(self, Rat::NaN)
    }
    pub fn add(&self, o: &Rat) -> Rat {
        match (self, o) {
            (Rat::V { n: a, d: b }, Rat::V { n: c, d: e }) => {
                if b.is_one() && e.is_one() {
                    Rat::V { n: a.add(c), d: Int::one() }
                } else {
                    Rat::make(a.mul(e).add(&c.mul(b)), b.mul(e))
                }
            }
            _ => Rat::NaN,
        }
    }
    pub fn mul(&self, o: &Rat) -> Rat {
        match (self, o) {
            (Rat::V { n: a, d: b }, Rat::V { n: c, d: e }) => {
                if b.is_one() && e.is_one() {
                    Rat::V { n: a.mul(c), d: Int::one() }
                } else {
                    Rat::make(a.mul(c), b.mul(e))
                }
            }
            _ => Rat::NaN,
        }
    }
    pub fn neg(&self) -> Rat {
        match self {
            Rat::NaN => Rat::NaN,
            Rat::V { n, d } => Rat::V { n: n.neg(), d: d.clone() },
        }
    }
    pub fn recip(&self) -> Rat {
        match self {
            Rat::NaN => Rat::NaN,
            Rat::V { n, d } => Rat::make(d.clone(), n.clone()),
        }
    }
    /// numeric comparison with a non-negative integer; None for NaN
    pub fn cmp_u64(&self, c: u64) -> Option<Ordering> {
        match self {
            Rat::NaN => None,
            Rat::V { n, d } => Some(n.cmp(&Int::from_u64(c).mul(d))),
        }
    }
    pub fn cmp(&self, o: &Rat) -> Option<Ordering> {
        match (self, o) {
            (Rat::V { n: a, d: b }, Rat::V { n: c, d: e }) => Some(a.mul(e).cmp(&c.mul(b))),
            _ => None,
        }
    }
    pub fn is_negative(&self) -> bool {
        match self {
            Rat::NaN => false,
            Rat::V { n, .. } => n.is_neg(),
        }
    }
    /// floor of a non-negative value
    pub fn floor_nonneg(&self) -> Int {
        match self {
            Rat::NaN => Int::zero(),
            Rat::V { n, d } => n.divrem(d).0,
        }
    }
    pub fn bits(&self) -> usize {
        match self {
            Rat::NaN => 0,
            Rat::V { n, d } => n.bits().max(d.bits()),
        }
    }
    pub fn text(&self) -> String {
        match self {
            Rat::NaN => NAN_TEXT.to_string(),
            Rat::V { n, d } => {
                if d.is_one() {
                    n.to_dec()
                } else {
                    format!("{}/{}", n.to_dec(), d.to_dec())
                }
            }
        }
    }
}
