//! The real interpreter's own step-by-step path of an input-free program, obtained by
//! calling the real `execute_one` k times from a fresh state through the harness's
//! own seams.  Oracle for C11/C12 ("the same as the interpreter"), so that
//! interpreter defects (C01) do not surface there.

use crate::sim;
use hyeong::core::code::UnOptCode;
use hyeong::core::execute;
use hyeong::core::state::{State, UnOptState};
use hyeong::util::error::Error;
use hyeong::util::io::ReadLine;
use simcore::Plan;

#[derive(Clone, Debug, PartialEq)]
pub enum StepEnd {
    /// step completed; next command index
    Next(usize),
    /// program requested exit with this status
    Exit(i32),
    /// output-encoding error (message)
    Error(String),
    /// the interpreter tried to read input (program is not input-free)
    Read,
    Panic(String),
}

pub struct Step {
    pub out: Vec<u8>,
    pub err: Vec<u8>,
    pub end: StepEnd,
}

pub struct Path {
    /// states[j] = state after j steps; locs[j] = command executed by step j
    pub states: Vec<UnOptState>,
    pub locs: Vec<usize>,
    pub steps: Vec<Step>,
}

struct NoInput;

impl ReadLine for NoInput {
    fn read_line_(&mut self) -> Result<String, Error> {
        std::panic::resume_unwind(Box::new(ReadAttempt));
    }
}

struct ReadAttempt;

/// Run at most `max_steps` steps of the real interpreter over `code`.
pub fn real_path(code: &[UnOptCode], max_steps: u64) -> Path {
    let mut path = Path { states: Vec::new(), locs: Vec::new(), steps: Vec::new() };
    let (_e, _, _w) = sim::run_process(Plan::default(), Vec::new(), || {
        let mut state = UnOptState::new();
        for c in code {
            state.push_code(c.clone());
        }
        let mut loc = 0usize;
        path.states.push(state.clone());
        path.locs.push(loc);
        while loc < code.len() && (path.steps.len() as u64) < max_steps {
            let mut out: Vec<u8> = Vec::new();
            let mut err: Vec<u8> = Vec::new();
            let st = state.clone();
            let r = std::panic::catch_unwind(std::panic::AssertUnwindSafe(|| {
                execute::execute_one(&mut NoInput, &mut out, &mut err, st, loc)
            }));
            let end = match r {
                Ok(Ok((ns, nl))) => {
                    state = ns;
                    loc = nl;
                    StepEnd::Next(nl)
                }
                Ok(Err(e)) => StepEnd::Error(e.get_msg()),
                Err(p) => {
                    if let Some(e) = p.downcast_ref::<simcore::SimExit>() {
                        StepEnd::Exit(e.0)
                    } else if p.downcast_ref::<ReadAttempt>().is_some() {
                        StepEnd::Read
                    } else {
                        StepEnd::Panic("panic in execute_one".to_string())
                    }
                }
            };
            let done = !matches!(end, StepEnd::Next(_));
            path.steps.push(Step { out, err, end });
            if done {
                break;
            }
            path.states.push(state.clone());
            path.locs.push(loc);
        }
    });
    path
}
