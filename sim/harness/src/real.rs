//! RealWorld: the unmodified binary (guard off) and compiled programs, driven through
//! real pipes.  The simulator owns the bytes, the sizes of the individual write(2)
//! calls on the stdin pipe, when the pipe is closed, and the files on disk.

use std::io::{Read, Write};
use std::path::{Path, PathBuf};
use std::process::{Command, Stdio};
use std::sync::OnceLock;
use std::time::{Duration, Instant};

pub fn home() -> String {
    std::env::var("VERIF_HOME").unwrap_or_else(|_| "/verif".to_string())
}

fn cargo_in_repo(args: &[&str]) -> Result<(), String> {
    let out = Command::new("cargo")
        .args(args)
        .current_dir(std::env::var("VERIF_REPO").unwrap_or_else(|_| "/repo".to_string()))
        .env_remove("RUSTFLAGS")
        .env("CARGO_NET_OFFLINE", "true")
        .output()
        .map_err(|e| format!("cannot run cargo: {}", e))?;
    if !out.status.success() {
        return Err(format!("cargo {:?} failed:\n{}", args, String::from_utf8_lossy(&out.stderr)));
    }
    Ok(())
}

/// The real `hyeong` binary built from /repo's working tree with the guard off.
pub fn binary() -> Result<PathBuf, String> {
    static BIN: OnceLock<Result<PathBuf, String>> = OnceLock::new();
    BIN.get_or_init(|| {
        let td = format!("{}/.build/real", home());
        cargo_in_repo(&["build", "--release", "--offline", "-q", "--lib", "--bin", "hyeong", "--target-dir", &td])?;
        let p = PathBuf::from(format!("{}/release/hyeong", td));
        if p.exists() {
            Ok(p)
        } else {
            Err("real binary missing after build".into())
        }
    })
    .clone()
}

/// The number-only library build emitted programs link against (guard off).
pub fn number_rlib() -> Result<PathBuf, String> {
    static LIB: OnceLock<Result<PathBuf, String>> = OnceLock::new();
    LIB.get_or_init(|| {
        let td = format!("{}/.build/num", home());
        cargo_in_repo(&["build", "--release", "--offline", "-q", "--lib", "--no-default-features", "--features", "number", "--target-dir", &td])?;
        let p = PathBuf::from(format!("{}/release/libhyeong.rlib", td));
        if p.exists() {
            Ok(p)
        } else {
            Err("libhyeong.rlib missing after build".into())
        }
    })
    .clone()
}

#[derive(Clone, Debug)]
pub struct RealOut {
    pub status: Option<i32>,
    pub signal: Option<i32>,
    pub stdout: Vec<u8>,
    pub stderr: Vec<u8>,
    pub timed_out: bool,
    pub wall_ms: u64,
}

impl RealOut {
    pub fn describe(&self) -> String {
        if self.timed_out {
            "timed out".to_string()
        } else if let Some(s) = self.signal {
            format!("killed by signal {}", s)
        } else {
            format!("status {:?}", self.status)
        }
    }
}

/// A runaway child must not fill the harness's memory: stop reading (and thereby break the
/// pipe) after this many bytes.
pub const CAPTURE_CAP: usize = 16 << 20;

fn read_capped(r: &mut impl Read) -> Vec<u8> {
    let mut b = Vec::new();
    let mut buf = [0u8; 65536];
    loop {
        match r.read(&mut buf) {
            Ok(0) | Err(_) => break,
            Ok(n) => {
                b.extend_from_slice(&buf[..n]);
                if b.len() > CAPTURE_CAP {
                    break;
                }
            }
        }
    }
    b
}

/// Spawn `exe args`, feed `stdin` in writes of the given sizes (cycled; empty = one write).
pub fn run(exe: &Path, args: &[String], cwd: Option<&Path>, stdin: &[u8], chunks: &[usize], timeout: Duration) -> Result<RealOut, String> {
    run_inner(exe, args, None, cwd, stdin, chunks, timeout)
}

thread_local! {
    static HOLD_OPEN: std::cell::Cell<bool> = std::cell::Cell::new(false);
}

/// Like `run`, but standard input stays open after the data has been written (a producer that has not
/// finished yet): it is closed only when the child has exited or the time limit has passed.  Only for
/// programs that, by the model, end without ever reaching the end of their input.
pub fn run_stdin_held_open(exe: &Path, args: &[String], stdin: &[u8], chunks: &[usize], timeout: Duration) -> Result<RealOut, String> {
    HOLD_OPEN.with(|h| h.set(true));
    let r = run_inner(exe, args, None, None, stdin, chunks, timeout);
    HOLD_OPEN.with(|h| h.set(false));
    r
}

/// Like `run`, with one extra trailing argument given as raw OS bytes (file names that are not UTF-8).
pub fn run_os(exe: &Path, args: &[String], last: Option<&std::ffi::OsStr>, stdin: &[u8], chunks: &[usize], timeout: Duration) -> Result<RealOut, String> {
    run_inner(exe, args, last, None, stdin, chunks, timeout)
}

fn run_inner(exe: &Path, args: &[String], last: Option<&std::ffi::OsStr>, cwd: Option<&Path>, stdin: &[u8], chunks: &[usize], timeout: Duration) -> Result<RealOut, String> {
    let t0 = Instant::now();
    let mut cmd;
    if std::env::var("VERIF_NO_ULIMIT").is_err() {
        // 4 GB address-space limit: a runaway emitted program must not take the machine down
        cmd = Command::new("/bin/sh");
        cmd.arg("-c").arg("ulimit -v 4194304; exec \"$0\" \"$@\"").arg(exe).args(args);
    } else {
        cmd = Command::new(exe);
        cmd.args(args);
    }
    if let Some(l) = last {
        cmd.arg(l);
    }
    cmd.stdin(Stdio::piped()).stdout(Stdio::piped()).stderr(Stdio::piped());
    if let Some(d) = cwd {
        cmd.current_dir(d);
    }
    cmd.env("RUST_BACKTRACE", "0");
    let mut child = cmd.spawn().map_err(|e| format!("spawn {:?}: {}", exe, e))?;
    let mut si = child.stdin.take().unwrap();
    let mut so = child.stdout.take().unwrap();
    let mut se = child.stderr.take().unwrap();
    let data = stdin.to_vec();
    let ch = chunks.to_vec();
    let hold = HOLD_OPEN.with(|h| h.get());
    let child_done = std::sync::Arc::new(std::sync::atomic::AtomicBool::new(false));
    let child_done2 = child_done.clone();
    let wt = std::thread::spawn(move || {
        let mut pos = 0usize;
        let mut k = 0usize;
        while pos < data.len() {
            let n = if ch.is_empty() { data.len() - pos } else { ch[k % ch.len()].max(1).min(data.len() - pos) };
            k += 1;
            if si.write_all(&data[pos..pos + n]).is_err() {
                break;
            }
            let _ = si.flush();
            pos += n;
        }
        if hold {
            // keep the write end open until the child is gone
            while !child_done2.load(std::sync::atomic::Ordering::SeqCst) {
                std::thread::sleep(Duration::from_millis(2));
            }
        }
        drop(si);
    });
    let ot = std::thread::spawn(move || read_capped(&mut so));
    let et = std::thread::spawn(move || read_capped(&mut se));
    let mut timed_out = false;
    let status = loop {
        match child.try_wait() {
            Ok(Some(s)) => break Some(s),
            Ok(None) => {
                if t0.elapsed() > timeout {
                    let _ = child.kill();
                    timed_out = true;
                    break child.wait().ok();
                }
                std::thread::sleep(Duration::from_micros(300));
            }
            Err(_) => break None,
        }
    };
    child_done.store(true, std::sync::atomic::Ordering::SeqCst);
    let _ = wt.join();
    let stdout = ot.join().unwrap_or_default();
    let stderr = et.join().unwrap_or_default();
    use std::os::unix::process::ExitStatusExt;
    Ok(RealOut {
        status: status.and_then(|s| s.code()),
        signal: status.and_then(|s| s.signal()),
        stdout,
        stderr,
        timed_out,
        wall_ms: t0.elapsed().as_millis() as u64,
    })
}

/// Compile emitted Rust source against the number-only rlib; returns the executable.
pub fn rustc_compile(src_path: &Path, exe_path: &Path) -> Result<(), String> {
    let rlib = number_rlib()?;
    let deps = rlib.parent().unwrap().join("deps");
    let out = Command::new("rustc")
        .arg("--edition")
        .arg("2018")
        .args(["-C", "opt-level=0", "-C", "debug-assertions=off", "-C", "overflow-checks=off", "-C", "debuginfo=0", "-C", "codegen-units=1"])
        .arg("--extern")
        .arg(format!("hyeong={}", rlib.display()))
        .arg("-L")
        .arg(format!("dependency={}", deps.display()))
        .arg("--cap-lints")
        .arg("allow")
        .arg("-o")
        .arg(exe_path)
        .arg(src_path)
        .env_remove("RUSTFLAGS")
        .output()
        .map_err(|e| format!("cannot run rustc: {}", e))?;
    if !out.status.success() {
        return Err(String::from_utf8_lossy(&out.stderr).into_owned());
    }
    Ok(())
}

/// Real-pipe chunk sizes derived from the scenario's plan (pure function).
pub fn chunks_from_plan(plan: &simcore::Plan, n: usize) -> Vec<usize> {
    if plan.max_chunk == 0 {
        return Vec::new();
    }
    (0..n.max(1).min(4096)).map(|i| 1 + (simcore::mix(plan.key ^ (i as u64).wrapping_mul(0x9FB2_1C65_1E98_DF25)) % plan.max_chunk as u64) as usize).collect()
}

/// The C10 probe executable, linked against the guard-off full library.
pub fn optprobe() -> Result<PathBuf, String> {
    static P: OnceLock<Result<PathBuf, String>> = OnceLock::new();
    P.get_or_init(|| {
        binary()?;
        let td = format!("{}/.build/real/release", home());
        let src = format!("{}/sim/probe/optprobe.rs", home());
        let exe = PathBuf::from(format!("{}/.build/optprobe", home()));
        let out = Command::new("rustc")
            .args(["--edition", "2018", "-C", "opt-level=2", "--cap-lints", "allow"])
            .arg("--extern")
            .arg(format!("hyeong={}/libhyeong.rlib", td))
            .arg("-L")
            .arg(format!("dependency={}/deps", td))
            .arg("-o")
            .arg(&exe)
            .arg(&src)
            .env_remove("RUSTFLAGS")
            .output()
            .map_err(|e| format!("cannot run rustc: {}", e))?;
        if !out.status.success() {
            return Err(format!("optprobe does not compile: {}", String::from_utf8_lossy(&out.stderr)));
        }
        Ok(exe)
    })
    .clone()
}

/// Run with stdin connected to a regular file; returns how many bytes of it the
/// child consumed (the file offset is shared with the child).
pub fn run_stdin_file(exe: &Path, args: &[String], stdin_file: &Path, timeout: Duration) -> Result<(RealOut, u64), String> {
    use std::io::Seek;
    let t0 = Instant::now();
    let mut f = std::fs::File::open(stdin_file).map_err(|e| e.to_string())?;
    let child_in = f.try_clone().map_err(|e| e.to_string())?;
    let mut child = Command::new(exe)
        .args(args)
        .stdin(Stdio::from(child_in))
        .stdout(Stdio::piped())
        .stderr(Stdio::piped())
        .env("RUST_BACKTRACE", "0")
        .spawn()
        .map_err(|e| format!("spawn {:?}: {}", exe, e))?;
    let mut so = child.stdout.take().unwrap();
    let mut se = child.stderr.take().unwrap();
    let ot = std::thread::spawn(move || {
        let mut b = Vec::new();
        let _ = so.read_to_end(&mut b);
        b
    });
    let et = std::thread::spawn(move || {
        let mut b = Vec::new();
        let _ = se.read_to_end(&mut b);
        b
    });
    let mut timed_out = false;
    let status = loop {
        match child.try_wait() {
            Ok(Some(s)) => break Some(s),
            Ok(None) => {
                if t0.elapsed() > timeout {
                    let _ = child.kill();
                    timed_out = true;
                    break child.wait().ok();
                }
                std::thread::sleep(Duration::from_micros(300));
            }
            Err(_) => break None,
        }
    };
    let stdout = ot.join().unwrap_or_default();
    let stderr = et.join().unwrap_or_default();
    let consumed = f.stream_position().map_err(|e| e.to_string())?;
    use std::os::unix::process::ExitStatusExt;
    Ok((
        RealOut {
            status: status.and_then(|s| s.code()),
            signal: status.and_then(|s| s.signal()),
            stdout,
            stderr,
            timed_out,
            wall_ms: t0.elapsed().as_millis() as u64,
        },
        consumed,
    ))
}
