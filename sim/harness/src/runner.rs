//! Generic seeded-search driver: parallel runs, first-violation selection that is
//! independent of the worker count, minimisation, replay files, evidence.

use crate::json::J;
use crate::rng::{sub_seed, Rng};
use crate::scenario::Scenario;
use std::collections::{BTreeMap, HashSet};
use std::sync::atomic::{AtomicU64, Ordering};
use std::sync::Mutex;
use std::time::Instant;

#[derive(Clone, Debug, PartialEq)]
pub struct Violation {
    /// oracle clause that failed (the "violation class" preserved by minimisation)
    pub clause: String,
    pub expected: String,
    pub observed: String,
    pub world: &'static str,
}

impl Violation {
    pub fn new(clause: &str, expected: impl Into<String>, observed: impl Into<String>) -> Violation {
        Violation { clause: clause.to_string(), expected: expected.into(), observed: observed.into(), world: "sim" }
    }
}

#[derive(Clone, Default, Debug)]
pub struct RunOut {
    pub violation: Option<Violation>,
    pub nontrivial: bool,
    /// scenario was not usable (pre-condition failed); counted, not a verdict
    pub skipped: Option<&'static str>,
    /// hash of the full event log(s) of the run
    pub log_hash: u64,
    /// abstract shape (for "distinct interleavings/states reached")
    pub shape: u64,
    pub ticks: u64,
    pub counters: Vec<(&'static str, u64)>,
    pub events_head: Vec<String>,
}

impl RunOut {
    pub fn add(&mut self, k: &'static str, v: u64) {
        if v == 0 {
            return;
        }
        if let Some(e) = self.counters.iter_mut().find(|e| e.0 == k) {
            e.1 += v;
        } else {
            self.counters.push((k, v));
        }
    }
    pub fn fired(&mut self, f: &simcore::Fired) {
        self.add("F1_short_read", f.f1_short_read);
        self.add("F1_split_inside_utf8_sequence", f.f1_split_utf8);
        self.add("F2_read_eintr", f.f2_read_eintr);
        self.add("F5_short_write", f.f5_short_write);
        self.add("F6_write_eintr", f.f6_write_eintr);
        self.add("F8_sigint", f.f8_sigint);
        self.add("F10_stdin_read_error", f.f10_read_error);
    }
    pub fn absorb_world(&mut self, w: &simcore::World) {
        self.fired(&w.fired);
        self.ticks += w.ticks;
        self.log_hash = self.log_hash.rotate_left(17) ^ w.ev_hash;
        if self.events_head.len() < 60 {
            for e in w.ev_head.iter().take(60 - self.events_head.len()) {
                self.events_head.push(format!("{:?}", e));
            }
        }
    }
}

#[derive(Clone, Copy, Debug, PartialEq)]
pub enum Tier {
    Quick,
    Thorough,
}

impl Tier {
    pub fn name(&self) -> &'static str {
        match self {
            Tier::Quick => "quick",
            Tier::Thorough => "thorough",
        }
    }
}

pub trait Property: Sync {
    fn id(&self) -> &'static str;
    fn level(&self) -> &'static str;
    fn rule(&self) -> &'static str;
    fn runs(&self, tier: Tier) -> u64;
    fn generate(&self, rng: &mut Rng, tier: Tier) -> Scenario;
    fn run(&self, sc: &Scenario) -> RunOut;
    fn components(&self) -> J;
    fn assumptions(&self) -> Vec<String>;
    /// property-specific extra shrink candidates
    fn extra_shrinks(&self, _sc: &Scenario) -> Vec<Scenario> {
        Vec::new()
    }
    /// fix up a shrunk scenario (e.g. recompute budgets); return false to reject
    fn repair(&self, _sc: &mut Scenario) -> bool {
        true
    }
    /// how many runs the supervisor repeats with one fresh worker process each
    fn fresh_runs(&self, tier: Tier) -> u64 {
        if tier == Tier::Thorough {
            2000
        } else {
            200
        }
    }
    /// re-run one RealWorld case from a replay file (world = "real")
    fn replay_real(&self, _sc: &Scenario) -> Option<Violation> {
        None
    }
    /// extra phases after the seeded search (e.g. RealWorld slice); may add counters
    fn post(&self, _tier: Tier, _seed: u64, _stats: &mut Stats) -> Option<(Scenario, Violation)> {
        None
    }
}

#[derive(Default)]
pub struct Stats {
    pub evaluations: u64,
    pub nontrivial_hashes: Vec<u64>,
    pub shapes: HashSet<u64>,
    pub ticks: u64,
    pub counters: BTreeMap<String, u64>,
    pub runs_with: BTreeMap<String, u64>,
    pub skipped: BTreeMap<String, u64>,
    pub samples: Vec<J>,
    pub extra: Vec<(String, J)>,
}

impl Stats {
    fn merge(&mut self, o: Stats) {
        self.evaluations += o.evaluations;
        self.nontrivial_hashes.extend(o.nontrivial_hashes);
        self.shapes.extend(o.shapes);
        self.ticks += o.ticks;
        for (k, v) in o.counters {
            *self.counters.entry(k).or_insert(0) += v;
        }
        for (k, v) in o.runs_with {
            *self.runs_with.entry(k).or_insert(0) += v;
        }
        for (k, v) in o.skipped {
            *self.skipped.entry(k).or_insert(0) += v;
        }
        if self.samples.len() < 6 {
            self.samples.extend(o.samples.into_iter().take(2));
        }
    }
    pub fn count(&mut self, k: &str, v: u64) {
        *self.counters.entry(k.to_string()).or_insert(0) += v;
    }
}

/// Progress slots read by the supervisor process: which run each worker is executing right now.
pub mod progress {
    use std::os::unix::fs::FileExt;
    use std::sync::atomic::{AtomicUsize, Ordering};
    static NEXT: AtomicUsize = AtomicUsize::new(0);
    thread_local! {
        static SLOT: std::cell::RefCell<Option<std::fs::File>> = std::cell::RefCell::new(None);
    }
    pub const IDLE: u64 = u64::MAX;
    pub fn set(i: u64) {
        let dir = match std::env::var("VSIM_PROGRESS") {
            Ok(d) => d,
            Err(_) => return,
        };
        SLOT.with(|s| {
            let mut s = s.borrow_mut();
            if s.is_none() {
                let k = NEXT.fetch_add(1, Ordering::Relaxed);
                *s = std::fs::OpenOptions::new().create(true).write(true).open(format!("{}/w{:03}", dir, k)).ok();
            }
            if let Some(f) = s.as_ref() {
                let mut b = [0u8; 16];
                b[..8].copy_from_slice(&i.to_le_bytes());
                let t = std::time::SystemTime::now().duration_since(std::time::UNIX_EPOCH).map(|d| d.as_secs()).unwrap_or(0);
                b[8..].copy_from_slice(&t.to_le_bytes());
                let _ = f.write_at(&b, 0);
            }
        });
    }
    /// (run index, unix seconds when it started) per worker slot
    pub fn read_all(dir: &str) -> Vec<(u64, u64)> {
        let mut v = Vec::new();
        if let Ok(rd) = std::fs::read_dir(dir) {
            for e in rd.flatten() {
                if let Ok(b) = std::fs::read(e.path()) {
                    if b.len() >= 16 {
                        let i = u64::from_le_bytes(b[..8].try_into().unwrap());
                        let t = u64::from_le_bytes(b[8..16].try_into().unwrap());
                        if i != IDLE {
                            v.push((i, t));
                        }
                    }
                }
            }
        }
        v.sort();
        v
    }
}

pub fn make_scenario(p: &dyn Property, seed: u64, i: u64, tier: Tier) -> Scenario {
    let ss = sub_seed(seed, p.id(), i);
    let mut rng = Rng::new(ss);
    let mut sc = p.generate(&mut rng, tier);
    sc.seed = seed;
    sc.run = i;
    sc
}

pub struct SearchResult {
    pub stats: Stats,
    pub first: Option<(Scenario, Violation)>,
    pub wall_s: f64,
}

pub fn workers() -> usize {
    std::env::var("VERIF_WORKERS")
        .ok()
        .and_then(|s| s.parse().ok())
        .unwrap_or_else(|| std::thread::available_parallelism().map(|n| n.get()).unwrap_or(4).min(16))
}

/// Optional file receiving "run-index log-hash verdict" per run (determinism self-test).
pub fn search(p: &dyn Property, seed: u64, tier: Tier, n: u64, trace_file: Option<&str>) -> SearchResult {
    let t0 = Instant::now();
    let next = AtomicU64::new(0);
    let first_bad = AtomicU64::new(u64::MAX);
    let found: Mutex<Vec<(u64, Scenario, Violation)>> = Mutex::new(Vec::new());
    let total: Mutex<Stats> = Mutex::new(Stats::default());
    let trace: Mutex<Vec<(u64, u64, bool)>> = Mutex::new(Vec::new());
    let nw = workers();
    std::thread::scope(|s| {
        for _ in 0..nw {
            let h = std::thread::Builder::new().stack_size(256 << 20).spawn_scoped(s, || {
                let mut st = Stats::default();
                let mut tr: Vec<(u64, u64, bool)> = Vec::new();
                loop {
                    let i = next.fetch_add(1, Ordering::Relaxed);
                    if i >= n || i > first_bad.load(Ordering::Relaxed) {
                        break;
                    }
                    let sc = make_scenario(p, seed, i, tier);
                    progress::set(i);
                    let out = p.run(&sc);
                    progress::set(progress::IDLE);
                    st.evaluations += 1;
                    st.ticks += out.ticks;
                    if let Some(r) = out.skipped {
                        *st.skipped.entry(r.to_string()).or_insert(0) += 1;
                    }
                    for (k, v) in &out.counters {
                        *st.counters.entry(k.to_string()).or_insert(0) += *v;
                        *st.runs_with.entry(k.to_string()).or_insert(0) += 1;
                    }
                    if out.nontrivial {
                        st.nontrivial_hashes.push(sc.hash());
                        if st.samples.len() < 2 {
                            st.samples.push(sample_json(&sc, &out));
                        }
                    }
                    if st.shapes.len() < 2_000_000 {
                        st.shapes.insert(out.shape);
                    }
                    if trace_file.is_some() {
                        tr.push((i, out.log_hash, out.violation.is_some()));
                    }
                    if let Some(v) = out.violation {
                        first_bad.fetch_min(i, Ordering::Relaxed);
                        found.lock().unwrap().push((i, sc, v));
                    }
                }
                crate::sim::cleanup_thread();
                total.lock().unwrap().merge(st);
                trace.lock().unwrap().extend(tr);
            });
            h.expect("spawn worker");
        }
    });
    let mut stats = total.into_inner().unwrap();
    stats.nontrivial_hashes.sort_unstable();
    stats.nontrivial_hashes.dedup();
    if let Some(f) = trace_file {
        let mut t = trace.into_inner().unwrap();
        t.sort();
        let mut s = String::new();
        for (i, h, v) in t {
            s.push_str(&format!("{} {:016x} {}\n", i, h, v));
        }
        std::fs::write(f, s).expect("write trace");
    }
    let mut f = found.into_inner().unwrap();
    f.sort_by_key(|x| x.0);
    let first = f.into_iter().next().map(|(_, s, v)| (s, v));
    SearchResult { stats, first, wall_s: t0.elapsed().as_secs_f64() }
}

pub fn sample_json(sc: &Scenario, out: &RunOut) -> J {
    let mut j = J::obj()
        .set("run", J::Int(sc.run as i64))
        .set("program", J::Str(truncate(&sc.source(), 300)))
        .set("level", J::Int(sc.level as i64));
    if !sc.stdin.is_empty() {
        j.put("stdin", J::Str(truncate(&String::from_utf8_lossy(&sc.stdin), 120)));
    }
    if !sc.script.is_empty() {
        j.put("script", J::Arr(sc.script.iter().take(40).map(|s| J::str(s)).collect()));
    }
    if sc.file_fault != "none" {
        j.put("file_fault", J::str(&sc.file_fault));
    }
    if !sc.knobs.is_empty() {
        j.put("knobs", J::Obj(sc.knobs.iter().map(|(k, v)| (k.clone(), J::Int(*v))).collect()));
    }
    j.put("fault_plan", sc.to_json().get("fault_plan").cloned().unwrap_or(J::Null));
    j.put("ticks", J::Int(out.ticks as i64));
    j.put("events_head", J::Arr(out.events_head.iter().take(12).map(|s| J::str(s)).collect()));
    j
}

pub fn truncate(s: &str, n: usize) -> String {
    if s.chars().count() <= n {
        s.to_string()
    } else {
        let t: String = s.chars().take(n).collect();
        format!("{}…(+{} chars)", t, s.chars().count() - n)
    }
}

// ---------------------------------------------------------------- minimisation

fn simpler_areas(a: &crate::reflang::RArea) -> Vec<crate::reflang::RArea> {
    use crate::reflang::RArea;
    let mut v = Vec::new();
    match a {
        RArea::Nil => {}
        RArea::Leaf(_) => v.push(RArea::Nil),
        RArea::Node(t, l, r) => {
            v.push(RArea::Nil);
            v.push((**l).clone());
            v.push((**r).clone());
            for x in simpler_areas(l) {
                // keep grammar shape: left of `!` must be a leaf/nil, left of `?` must be `!`-chain
                v.push(RArea::Node(*t, Box::new(x), r.clone()));
            }
            for x in simpler_areas(r) {
                if *t == 1 && matches!(x, RArea::Node(0, _, _)) {
                    continue;
                }
                v.push(RArea::Node(*t, l.clone(), Box::new(x)));
            }
        }
    }
    v.retain(|x| grammar_shaped(x));
    v
}

pub fn grammar_shaped(a: &crate::reflang::RArea) -> bool {
    use crate::reflang::RArea;
    fn is_b(a: &RArea) -> bool {
        match a {
            RArea::Nil | RArea::Leaf(_) => true,
            RArea::Node(1, l, r) => matches!(**l, RArea::Nil | RArea::Leaf(_)) && is_b(r),
            _ => false,
        }
    }
    match a {
        RArea::Node(0, l, r) => is_b(l) && grammar_shaped(r),
        x => is_b(x),
    }
}

fn shrink_candidates(p: &dyn Property, sc: &Scenario) -> Vec<Scenario> {
    let mut v: Vec<Scenario> = Vec::new();
    // faults first: a fault-free reproduction is the most readable
    if !sc.plan.fault_free() {
        let mut c = sc.clone();
        c.plan.max_chunk = 0;
        c.plan.read_eintr_pct = 0;
        c.plan.short_write_pct = 0;
        c.plan.write_eintr_pct = 0;
        c.plan.sigint_at.clear();
        c.plan.read_error_at = -1;
        c.plan.bufcap = 8192;
        v.push(c);
        if sc.plan.max_chunk != 0 {
            let mut c = sc.clone();
            c.plan.max_chunk = 0;
            v.push(c);
        }
        if sc.plan.read_eintr_pct != 0 {
            let mut c = sc.clone();
            c.plan.read_eintr_pct = 0;
            v.push(c);
        }
        if sc.plan.short_write_pct != 0 {
            let mut c = sc.clone();
            c.plan.short_write_pct = 0;
            v.push(c);
        }
        if sc.plan.write_eintr_pct != 0 {
            let mut c = sc.clone();
            c.plan.write_eintr_pct = 0;
            v.push(c);
        }
        for i in 0..sc.plan.sigint_at.len() {
            let mut c = sc.clone();
            c.plan.sigint_at.remove(i);
            v.push(c);
        }
    }
    if sc.plan.bufcap != 8192 {
        let mut c = sc.clone();
        c.plan.bufcap = 8192;
        v.push(c);
    }
    // drop chunks of commands, then single commands
    let n = sc.cmds.len();
    let mut k = n / 2;
    while k >= 1 {
        let mut i = 0;
        while i + k <= n {
            let mut c = sc.clone();
            c.cmds.drain(i..i + k);
            v.push(c);
            i += k;
        }
        k /= 2;
    }
    // script lines
    let m = sc.script.len();
    let mut k = m / 2;
    while k >= 1 {
        let mut i = 0;
        while i + k <= m {
            let mut c = sc.clone();
            c.script.drain(i..i + k);
            v.push(c);
            i += k;
        }
        k /= 2;
    }
    // stdin: truncate at character boundaries
    if !sc.stdin.is_empty() {
        let mut c = sc.clone();
        c.stdin.clear();
        v.push(c);
        if let Ok(s) = std::str::from_utf8(&sc.stdin) {
            let cs: Vec<char> = s.chars().collect();
            for cut in [cs.len() / 2, cs.len() - 1] {
                let mut c = sc.clone();
                c.stdin = cs[..cut].iter().collect::<String>().into_bytes();
                v.push(c);
            }
            if cs.len() > 1 {
                let mut c = sc.clone();
                c.stdin = cs[1..].iter().collect::<String>().into_bytes();
                v.push(c);
            }
        } else {
            let mut c = sc.clone();
            c.stdin.truncate(sc.stdin.len() / 2);
            v.push(c);
            let mut c = sc.clone();
            c.stdin.truncate(sc.stdin.len() - 1);
            v.push(c);
        }
    }
    // per command: simplify counts and areas
    for i in 0..n {
        let cmd = &sc.cmds[i];
        for a in simpler_areas(&cmd.area) {
            let mut c = sc.clone();
            c.cmds[i].area = a;
            v.push(c);
        }
        if cmd.h > 1 {
            for nh in [1, cmd.h / 2, cmd.h - 1] {
                if nh >= 1 && nh < cmd.h {
                    let mut c = sc.clone();
                    c.cmds[i].h = nh;
                    v.push(c);
                }
            }
        }
        if cmd.d > 0 {
            for nd in [0, 1, 3, cmd.d / 2, cmd.d - 1] {
                if nd < cmd.d {
                    let mut c = sc.clone();
                    c.cmds[i].d = nd;
                    v.push(c);
                }
            }
        }
        if cmd.kind != 0 {
            let mut c = sc.clone();
            c.cmds[i].kind = 0;
            v.push(c);
        }
    }
    // knobs: prefer the plain configuration; script lines: prefer the trimmed spelling
    for (k, val) in &sc.knobs {
        if *val != 0 && k != "family" && k != "k" {
            let mut c = sc.clone();
            c.set_knob(k, 0);
            v.push(c);
        }
    }
    for (i, l) in sc.script.iter().enumerate() {
        if l.trim() != l && !l.trim().is_empty() {
            let mut c = sc.clone();
            c.script[i] = l.trim().to_string();
            v.push(c);
        }
    }
    if sc.no_final_newline {
        let mut c = sc.clone();
        c.no_final_newline = false;
        v.push(c);
    }
    v.extend(p.extra_shrinks(sc));
    v
}

/// Greedy minimisation preserving the violation class (oracle clause).
pub fn minimise(p: &dyn Property, sc: Scenario, v: Violation, max_runs: usize) -> (Scenario, Violation, usize) {
    let mut best = sc;
    let mut bv = v;
    let mut runs = 0usize;
    let t0 = Instant::now();
    'outer: loop {
        let cands = shrink_candidates(p, &best);
        for mut c in cands {
            if runs >= max_runs || t0.elapsed().as_secs() > 45 {
                break 'outer;
            }
            if !p.repair(&mut c) {
                continue;
            }
            if c == best {
                continue;
            }
            runs += 1;
            let out = p.run(&c);
            if let Some(nv) = out.violation {
                if nv.clause == bv.clause {
                    best = c;
                    bv = nv;
                    continue 'outer;
                }
            }
        }
        break;
    }
    (best, bv, runs)
}

pub fn replay_json(sc: &Scenario, v: &Violation, out: &RunOut, shrink_runs: usize) -> J {
    let mut j = sc.to_json();
    j.put("world", J::str(v.world));
    j.put(
        "violation",
        J::obj()
            .set("clause", J::str(&v.clause))
            .set("expected", J::Str(truncate(&v.expected, 4000)))
            .set("observed", J::Str(truncate(&v.observed, 4000))),
    );
    j.put("event_log_hash", J::Str(format!("{:016x}", out.log_hash)));
    j.put("event_log_head", J::Arr(out.events_head.iter().map(|s| J::str(s)).collect()));
    j.put("minimisation_runs", J::Int(shrink_runs as i64));
    j
}

/// Parallel slice helper for the RealWorld phases: evaluates `f(i)` for i in 0..n on
/// all workers; returns the total of the counters and the hit with the smallest index
/// (so the verdict does not depend on the worker count).
pub fn par_find<T: Send>(n: u64, f: impl Fn(u64) -> (u64, Option<T>) + Sync) -> (u64, Option<T>) {
    let next = AtomicU64::new(0);
    let first_bad = AtomicU64::new(u64::MAX);
    let count = AtomicU64::new(0);
    let found: Mutex<Vec<(u64, T)>> = Mutex::new(Vec::new());
    std::thread::scope(|s| {
        for _ in 0..workers() {
            s.spawn(|| loop {
                let i = next.fetch_add(1, Ordering::Relaxed);
                if i >= n || i > first_bad.load(Ordering::Relaxed) {
                    break;
                }
                let (c, r) = f(i);
                count.fetch_add(c, Ordering::Relaxed);
                if let Some(t) = r {
                    first_bad.fetch_min(i, Ordering::Relaxed);
                    found.lock().unwrap().push((i, t));
                }
            });
        }
    });
    let mut v = found.into_inner().unwrap();
    v.sort_by_key(|x| x.0);
    (count.into_inner(), v.into_iter().next().map(|x| x.1))
}
