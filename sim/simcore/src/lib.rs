//! The simulated process environment ("SimWorld"): one per thread.
//!
//! Everything the program under test can observe or affect outside its own memory
//! goes through this module: the bytes of standard input (delivered in planned
//! chunks, with planned EINTR), the two output streams (with planned short writes
//! and EINTR), process exit, SIGINT, and the step clock.  Running a scenario never
//! draws from a PRNG: every fault is a pure function of the plan and a call counter.

use std::cell::RefCell;
use std::io::{self, BufRead, BufReader, Read};

/// splitmix64 finaliser: the pure function faults are derived from.
pub fn mix(mut z: u64) -> u64 {
    z = z.wrapping_add(0x9E37_79B9_7F4A_7C15);
    z = (z ^ (z >> 30)).wrapping_mul(0xBF58_476D_1CE4_E5B9);
    z = (z ^ (z >> 27)).wrapping_mul(0x94D0_49BB_1331_11EB);
    z ^ (z >> 31)
}

/// Fault plan.  A pure description; serialisable; no PRNG state.
#[derive(Clone, Debug, PartialEq)]
pub struct Plan {
    /// key for the per-call fault function
    pub key: u64,
    /// F1: maximum size of one raw stdin read (0 = unlimited)
    pub max_chunk: usize,
    /// F2: percentage of raw stdin reads that first fail with EINTR
    pub read_eintr_pct: u8,
    /// capacity of the BufReader in front of the simulated pipe
    pub bufcap: usize,
    /// F5: percentage of stream writes that are accepted only partially
    pub short_write_pct: u8,
    /// F6: percentage of stream writes that first fail with EINTR
    pub write_eintr_pct: u8,
    /// F8: line-read numbers (0-based) before which SIGINT is delivered
    pub sigint_at: Vec<u32>,
    /// step budget (ticks); 0 = unlimited
    pub tick_budget: u64,
    /// F10: the raw stdin read with this number (0-based) fails with EIO; negative = never
    pub read_error_at: i64,
}

impl Default for Plan {
    fn default() -> Self {
        Plan {
            key: 0,
            max_chunk: 0,
            read_eintr_pct: 0,
            bufcap: 8192,
            short_write_pct: 0,
            write_eintr_pct: 0,
            sigint_at: Vec::new(),
            tick_budget: 0,
            read_error_at: -1,
        }
    }
}

impl Plan {
    pub fn fault_free(&self) -> bool {
        self.max_chunk == 0
            && self.read_eintr_pct == 0
            && self.short_write_pct == 0
            && self.write_eintr_pct == 0
            && self.sigint_at.is_empty()
            && self.read_error_at < 0
    }
}

#[derive(Clone, Debug, PartialEq)]
pub enum Ev {
    /// raw pipe read returned n bytes (0 = end of input)
    Read { n: u32 },
    ReadIntr,
    ReadError,
    /// a whole read_line completed; `out_pos`/`err_pos` = stream lengths at that moment
    Line { idx: u32, len: u32, ok: bool, out_pos: u32, err_pos: u32 },
    Write { stream: u8, len: u32, accepted: u32 },
    WriteIntr { stream: u8 },
    Flush { stream: u8 },
    Exit { site: &'static str, code: i32 },
    /// SIGINT delivered; handler output occupies out[from..to]
    Sigint { from: u32, to: u32 },
    /// tick budget exhausted
    Stop { ticks: u64 },
}

#[derive(Default, Clone, Debug)]
pub struct Fired {
    pub f1_short_read: u64,
    pub f1_split_utf8: u64,
    pub f2_read_eintr: u64,
    pub f5_short_write: u64,
    pub f6_write_eintr: u64,
    pub f8_sigint: u64,
    pub f10_read_error: u64,
}

pub struct World {
    pub plan: Plan,
    pub stdin: Vec<u8>,
    pub stdin_pos: usize,
    pub raw_reads: u64,
    pub line_reads: u32,
    pub out: Vec<u8>,
    pub err: Vec<u8>,
    pub writes: u64,
    pub ticks: u64,
    pub ticks_exec: u64,
    pub ticks_opt: u64,
    pub exit: Option<(&'static str, i32)>,
    pub sigint_ranges: Vec<(usize, usize)>,
    pub fired: Fired,
    pub ev_hash: u64,
    pub ev_count: u64,
    pub ev_head: Vec<Ev>,
    pub pending_eintr_read: bool,
    pub pending_eintr_write: bool,
    pub in_sigint: bool,
}

pub const EV_KEEP: usize = 400;

impl World {
    pub fn new(plan: Plan, stdin: Vec<u8>) -> World {
        World {
            plan,
            stdin,
            stdin_pos: 0,
            raw_reads: 0,
            line_reads: 0,
            out: Vec::new(),
            err: Vec::new(),
            writes: 0,
            ticks: 0,
            ticks_exec: 0,
            ticks_opt: 0,
            exit: None,
            sigint_ranges: Vec::new(),
            fired: Fired::default(),
            ev_hash: 0xcbf2_9ce4_8422_2325,
            ev_count: 0,
            ev_head: Vec::new(),
            pending_eintr_read: false,
            pending_eintr_write: false,
            in_sigint: false,
        }
    }

    pub fn log(&mut self, e: Ev) {
        // hash the event's debug rendering: stable, contains no addresses
        let s = format!("{:?}", e);
        for b in s.bytes() {
            self.ev_hash ^= b as u64;
            self.ev_hash = self.ev_hash.wrapping_mul(0x0000_0100_0000_01B3);
        }
        self.ev_count += 1;
        if self.ev_head.len() < EV_KEEP {
            self.ev_head.push(e);
        }
    }

    fn raw_read(&mut self, buf: &mut [u8]) -> io::Result<usize> {
        let call = self.raw_reads;
        self.raw_reads += 1;
        if self.plan.read_error_at >= 0 && call == self.plan.read_error_at as u64 {
            self.fired.f10_read_error += 1;
            self.log(Ev::ReadError);
            return Err(io::Error::new(io::ErrorKind::Other, "simulated EIO on standard input"));
        }
        if self.plan.read_eintr_pct > 0 && !self.pending_eintr_read {
            if mix(self.plan.key ^ call.wrapping_mul(0xA24B_AED4_963E_E407)) % 100
                < self.plan.read_eintr_pct as u64
            {
                self.pending_eintr_read = true;
                self.fired.f2_read_eintr += 1;
                self.log(Ev::ReadIntr);
                return Err(io::Error::from(io::ErrorKind::Interrupted));
            }
        }
        self.pending_eintr_read = false;
        let remaining = self.stdin.len() - self.stdin_pos;
        let mut n = remaining.min(buf.len());
        if self.plan.max_chunk > 0 && n > 0 {
            let c = 1 + (mix(self.plan.key ^ call.wrapping_mul(0x9FB2_1C65_1E98_DF25))
                % self.plan.max_chunk as u64) as usize;
            if c < n {
                n = c;
                self.fired.f1_short_read += 1;
                // did we cut inside a multi-byte sequence?
                let next = self.stdin[self.stdin_pos + n];
                if next & 0xC0 == 0x80 {
                    self.fired.f1_split_utf8 += 1;
                }
            }
        }
        buf[..n].copy_from_slice(&self.stdin[self.stdin_pos..self.stdin_pos + n]);
        self.stdin_pos += n;
        self.log(Ev::Read { n: n as u32 });
        Ok(n)
    }

    pub fn sink_write(&mut self, stream: u8, buf: &[u8]) -> io::Result<usize> {
        if buf.is_empty() {
            return Ok(0);
        }
        let call = self.writes;
        self.writes += 1;
        if self.plan.write_eintr_pct > 0 && !self.pending_eintr_write {
            if mix(self.plan.key ^ call.wrapping_mul(0xD6E8_FEB8_6659_FD93)) % 100
                < self.plan.write_eintr_pct as u64
            {
                self.pending_eintr_write = true;
                self.fired.f6_write_eintr += 1;
                self.log(Ev::WriteIntr { stream });
                return Err(io::Error::from(io::ErrorKind::Interrupted));
            }
        }
        self.pending_eintr_write = false;
        let mut n = buf.len();
        if self.plan.short_write_pct > 0 && n > 1 {
            let h = mix(self.plan.key ^ call.wrapping_mul(0xC2B2_AE3D_27D4_EB4F));
            if h % 100 < self.plan.short_write_pct as u64 {
                n = 1 + ((h >> 32) % (n as u64 - 1)) as usize;
                self.fired.f5_short_write += 1;
            }
        }
        let sink = if stream == 1 { &mut self.out } else { &mut self.err };
        sink.extend_from_slice(&buf[..n]);
        self.log(Ev::Write { stream, len: buf.len() as u32, accepted: n as u32 });
        Ok(n)
    }
}

thread_local! {
    static WORLD: RefCell<Option<World>> = RefCell::new(None);
    static READER: RefCell<Option<BufReader<SimPipe>>> = RefCell::new(None);
}

/// The simulated file descriptor 0.
pub struct SimPipe;

impl Read for SimPipe {
    fn read(&mut self, buf: &mut [u8]) -> io::Result<usize> {
        with(|w| w.raw_read(buf))
    }
}

/// Install a fresh world on this thread (a new simulated process).
pub fn begin(plan: Plan, stdin: Vec<u8>) {
    let cap = plan.bufcap.max(1);
    WORLD.with(|w| *w.borrow_mut() = Some(World::new(plan, stdin)));
    READER.with(|r| *r.borrow_mut() = Some(BufReader::with_capacity(cap, SimPipe)));
}

/// Tear the world down and hand it to the caller for inspection.
pub fn end() -> World {
    READER.with(|r| *r.borrow_mut() = None);
    WORLD.with(|w| w.borrow_mut().take().expect("no world"))
}

pub fn active() -> bool {
    WORLD.with(|w| w.borrow().is_some())
}

pub fn with<R>(f: impl FnOnce(&mut World) -> R) -> R {
    WORLD.with(|w| f(w.borrow_mut().as_mut().expect("simcore: no world installed")))
}

/// `Stdin::read_line` of the simulated process: std's own BufReader/read_line
/// (line assembly, UTF-8 validation, EINTR retry) over the simulated descriptor.
pub fn stdin_read_line(buf: &mut String) -> io::Result<usize> {
    let mut rd = READER.with(|r| r.borrow_mut().take()).expect("simcore: no reader");
    let res = rd.read_line(buf);
    READER.with(|r| *r.borrow_mut() = Some(rd));
    with(|w| {
        let idx = w.line_reads;
        w.line_reads += 1;
        let (o, e) = (w.out.len() as u32, w.err.len() as u32);
        let len = match &res {
            Ok(n) => *n as u32,
            Err(_) => 0,
        };
        w.log(Ev::Line { idx, len, ok: res.is_ok(), out_pos: o, err_pos: e });
    });
    res
}

/// Unwind payloads used to end a simulated process.
pub struct SimExit(pub i32);
pub struct SimStop;
