// RealWorld complement of C10: calls the guard-off library's optimizer and prints a
// completion marker.  Whatever else appears on stdout/stderr, any byte consumed from
// stdin, or any other exit status is the optimizer performing the program's effects.
use std::io::Write;

fn main() {
    let args: Vec<String> = std::env::args().collect();
    let text = std::fs::read_to_string(&args[1]).expect("program file");
    let level: u8 = args[2].parse().expect("level");
    let code = hyeong::core::parse::parse(text);
    let r = hyeong::core::optimize::optimize(code, level);
    let mut o = std::io::stdout();
    match r {
        Ok((_s, c)) => writeln!(o, "DONE ok {}", c.len()).unwrap(),
        Err(_) => writeln!(o, "DONE err").unwrap(),
    }
}
