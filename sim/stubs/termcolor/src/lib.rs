//! Simulator-owned replacement for the `termcolor` crate.
//!
//! Every handle opened on a stream appends to the one simulated sink of that stream
//! (as the real crate's handles all share the process's stdout/stderr).  Colour
//! requests are accepted and ignored (the RealWorld layer runs `--color never`).

use std::io::{self, Write};

#[derive(Clone, Copy, Debug, PartialEq, Eq)]
pub enum ColorChoice {
    Always,
    AlwaysAnsi,
    Auto,
    Never,
}

#[derive(Clone, Copy, Debug, PartialEq, Eq)]
pub enum Color {
    Black,
    Blue,
    Green,
    Red,
    Cyan,
    Magenta,
    Yellow,
    White,
    Ansi256(u8),
    Rgb(u8, u8, u8),
}

#[derive(Clone, Debug, Default, PartialEq, Eq)]
pub struct ColorSpec {
    fg: Option<Color>,
    bg: Option<Color>,
    bold: bool,
}

impl ColorSpec {
    pub fn new() -> ColorSpec {
        ColorSpec::default()
    }
    pub fn set_fg(&mut self, c: Option<Color>) -> &mut ColorSpec {
        self.fg = c;
        self
    }
    pub fn set_bg(&mut self, c: Option<Color>) -> &mut ColorSpec {
        self.bg = c;
        self
    }
    pub fn set_bold(&mut self, b: bool) -> &mut ColorSpec {
        self.bold = b;
        self
    }
}

pub trait WriteColor: Write {
    fn supports_color(&self) -> bool;
    fn set_color(&mut self, spec: &ColorSpec) -> io::Result<()>;
    fn reset(&mut self) -> io::Result<()>;
}

pub struct StandardStream {
    stream: u8,
}

impl StandardStream {
    pub fn stdout(_c: ColorChoice) -> StandardStream {
        StandardStream { stream: 1 }
    }
    pub fn stderr(_c: ColorChoice) -> StandardStream {
        StandardStream { stream: 2 }
    }
}

impl Write for StandardStream {
    fn write(&mut self, buf: &[u8]) -> io::Result<usize> {
        simcore::with(|w| w.sink_write(self.stream, buf))
    }
    fn flush(&mut self) -> io::Result<()> {
        let s = self.stream;
        simcore::with(|w| w.log(simcore::Ev::Flush { stream: s }));
        Ok(())
    }
}

impl WriteColor for StandardStream {
    fn supports_color(&self) -> bool {
        false
    }
    fn set_color(&mut self, _spec: &ColorSpec) -> io::Result<()> {
        Ok(())
    }
    fn reset(&mut self) -> io::Result<()> {
        Ok(())
    }
}
