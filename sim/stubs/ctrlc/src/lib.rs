//! Simulator-owned replacement for the `ctrlc` crate: the handler is stored per
//! simulated process (thread) and invoked synchronously by the simulator as the
//! SIGINT fault.

use std::cell::RefCell;

#[derive(Debug)]
pub enum Error {
    MultipleHandlers,
}

impl std::fmt::Display for Error {
    fn fmt(&self, f: &mut std::fmt::Formatter<'_>) -> std::fmt::Result {
        write!(f, "{:?}", self)
    }
}

impl std::error::Error for Error {}

thread_local! {
    static HANDLER: RefCell<Option<Box<dyn FnMut()>>> = RefCell::new(None);
}

pub fn set_handler<F>(f: F) -> Result<(), Error>
where
    F: FnMut() + 'static + Send,
{
    HANDLER.with(|h| {
        let mut h = h.borrow_mut();
        if h.is_some() {
            return Err(Error::MultipleHandlers);
        }
        *h = Some(Box::new(f));
        Ok(())
    })
}

/// New simulated process: no handler installed.
pub fn sim_reset() {
    HANDLER.with(|h| *h.borrow_mut() = None);
}

/// Deliver SIGINT.  Returns false if no handler is installed (the real process
/// would be killed; the simulator never plans a SIGINT in that situation).
pub fn sim_fire() -> bool {
    let taken = HANDLER.with(|h| h.borrow_mut().take());
    match taken {
        Some(mut f) => {
            let from = simcore::with(|w| {
                w.in_sigint = true;
                w.out.len()
            });
            f();
            simcore::with(|w| {
                w.in_sigint = false;
                let to = w.out.len();
                w.sigint_ranges.push((from, to));
                w.fired.f8_sigint += 1;
                w.log(simcore::Ev::Sigint { from: from as u32, to: to as u32 });
            });
            HANDLER.with(|h| *h.borrow_mut() = Some(f));
            true
        }
        None => false,
    }
}
