#!/usr/bin/env python3
"""Regenerate /verif/MANIFEST.json (kept valid at all times; run after changing checks)."""
import json, subprocess, os
H = os.path.dirname(os.path.dirname(os.path.abspath(__file__)))
log = subprocess.run(['git', '-C', '/repo', 'log', '--format=%h %s'], capture_output=True, text=True).stdout.splitlines()
hook_commits = [l.split()[0] for l in log if l.split(' ', 1)[1].startswith('verif hooks')]
TECH = "deterministic simulation with fault injection"
checks = {
 "C01": ("exploration",
   "Seeded search over programs x stdin texts x I/O fault plans (chunked reads, EINTR, short writes). Lock-step layer: the real execute_one runs command by command against an independent reference model and every stack, the selected stack, stdout, stderr and the next command are compared after each command; application layer: run -O0 through app::run::run + io::handle in SimWorld. Sampling, not proof: a clean batch is evidence for the sampled scenarios.",
   "trusts the reference model (refnum/reflang, validated against Python int/Fraction by `./check selftest-refnum`), values capped at 96/192/1024 bits, runs capped at 60..5000 steps; canonical program spelling only (arbitrary text is C04, not claimed)",
   TECH + ": lock-step refinement of the real interpreter against an executable reference model inside SimWorld"),
 "C02": ("exploration",
   "The same scenario is run at -O0, -O1 and -O2 through the real app::run::run in SimWorld under one total step budget; stdout, stderr and ending must agree with the -O0 observation (prefix-compatible for bounded runs, same kind of diagnostic for encoding errors). Generator biased to the hazards the statement names (loops over the 100-jump budget printing each round, output before abandoned speculation, backward jumps after the last stack switch, never-selected stacks, multi-operand operands, input in the middle, exits).",
   "oracle is the -O0 run of the same tree (interpreter defects are C01's); reference model only bounds the runs; values capped at 96/192 bits",
   TECH + ": differential simulation of the three optimisation levels against the level-0 observation"),
 "C03": ("translation_validation",
   "Per generated program and level 0/1/2 the real optimize + compile::build_source run in-process (SimWorld armed), the emitted text goes unchanged to rustc against the number-only build of /repo, and the executable is driven through real pipes; stdout, stderr and exit status are validated against the reference model. Includes a model-searched family: jump inside the pre-executed part, input needed, then a ♡ return at run time.",
   "only programs the model shows to terminate within 3000 steps and 96 bits; rustc opt-level 0 (no debug assertions/overflow checks) stands in for cargo build --release of the generated crate; stdin chunking by sized write(2), kernel interleaving uncontrolled; 60 s wall-clock limit retried once",
   TECH + ": per-program translation validation (emit -> rustc -> executable on simulator-owned pipes) against the reference model"),
 "C10": ("exploration",
   "optimize::optimize(code, level) is called as one simulated process per level with a sentinel on simulated stdin; invariants over the event log: no Read/Line event (sentinel fully unread), no Exit event, no byte on the process streams, returns, opt_execute steps <= 2000 n^2 + n + 10. Generator biased to I/O-stack selections followed by every popping kind (also inside ?/! areas) and to small-valued infinite loops.",
   "every effect the optimiser could perform goes through a simulator-owned seam (stdin hook, exit hook, termcolor stub); a stray print! would bypass the stub; programs whose speculation window leaves 128 bits are skipped",
   TECH + ": effect isolation checked as event-log invariants of the simulated process"),
 "C11": ("exploration",
   "The real app::debug::run is driven in SimWorld by seeded histories of debugger commands (next/previous/run/state/break N/break/help/unknown/blank/exit, EOF anywhere, breakpoint numbers at and beyond the length, huge/negative/garbage), with chunked reads, EINTR, short writes and SIGINT at prompts. A debugger model (depth, breakpoint set, pending output) whose states come from running the real execute_one k times walks the transcript piece by piece; any panic is a crash.",
   "message wording matched by marker only, payloads exactly; interpreter states come from the real interpreter (C01's defects do not surface here); input-free programs; encoding-error programs only checked for 'status 1 + diagnostic, no crash'",
   TECH + ": history-driven simulation of the interactive debugger against a debugger model over the real interpreter's path"),
 "C12": ("exploration",
   "The real app::interpreter::run is driven in SimWorld by seeded compositions of an input-free program into entered lines (a quarter of them with comment text around the commands) with clear/help/blank lines between, EOF anywhere, chunked reads, EINTR, short writes, SIGINT at prompts. Per line and in total the transcript must show exactly what the same commands produce when the whole entered text is parsed at once and run as one program through the real execute::execute in a fresh state.",
   "oracle is the real whole-program run; lines that would not terminate within the step budget or leave the value cap are cut by the reference pre-flight; wording matched by marker only",
   TECH + ": history-driven simulation of the interactive interpreter against the whole-program run"),
 "C13": ("fault_enumeration",
   "Every generated base (valid program, valid stdin) is re-run under every storage fault class (missing, directory, no/wrong extension, empty, byte flip, cut inside a character, lone continuation byte, UTF-8 noise, byte noise, 4096-operator area chain) with run -O0/1/2 and check, and under every stdin fault class (byte flip, cut inside a character, inserted 0xFF, random bytes, empty) at every level, in SimWorld; a slice goes to the real binary (main.rs, clap) on real files and pipes. Outcome classification: return / program-requested 0|1 / status 1 after a diagnostic; never a panic, signal or other status; direction from the reference model.",
   "fault classes enumerated completely per base, positions within a class sampled; permanent write errors and allocation failure not injected (no property speaks about them); runs the model cannot bound are accepted with any defined ending",
   TECH + ": storage and stdin fault classes enumerated against every base scenario, outcome classification"),
 "C14": ("exploration",
   "Copy programs (exactly k characters; until end of input) are fed valid UTF-8 texts over all planes, boundary scalars, CR/LF/CRLF, empty lines, missing final newline, empty input, long lines, delivered in 1..n byte reads that split multi-byte sequences, with EINTR and short writes: run -O0/1/2 in SimWorld, and compiled -O0/1/2 executables plus the release binary on real pipes. Output bytes must equal the closed form, which is cross-checked against the reference model (disagreement = harness error).",
   "program family limited to copy-k and copy-until-EOF (the reverse-per-line member is not built); inputs up to 12k (quick) / 100k (thorough) characters",
   TECH + ": hostile stdin chunking and write faults against closed-form output, six configurations"),
}
refs = {"C01": "3 C01", "C02": "3 C02", "C03": "3 C03", "C10": "3 C10", "C11": "3 C11", "C12": "3 C12", "C13": "3 C13", "C14": "3 C14"}
na = {
 "C04": "pure function String -> Vec<Command>: no I/O, schedule, fault, clock or history for a simulator to control; deterministic simulation has nothing to decide (DESIGN section 4)",
 "C05": "pure big-integer arithmetic on in-memory values: no nondeterminism, I/O or fault surface (DESIGN section 4)",
 "C06": "pure rational arithmetic: no nondeterminism, I/O or fault surface (DESIGN section 4)",
 "C07": "pure comparison function; its program-level corollary (which ?/! branch is taken) is exercised inside C01 (DESIGN section 4)",
 "C08": "pure render/parse round trip: no I/O, schedule or fault in it (DESIGN section 4)",
 "C09": "pure number/text round trip: no I/O, schedule or fault in it (DESIGN section 4)",
}
m = {
 "version": 1,
 "setup_cmd": "./setup.sh",
 "hooks": {
   "guard": "--cfg hyeong_verif",
   "enable": "rustflags --cfg hyeong_verif in /verif/sim/.cargo/config.toml; the shadow manifest /verif/sim/shadow/Cargo.toml compiles /repo/src/lib.rs in place (nothing copied) with termcolor and ctrlc resolved to simulator stubs; RealWorld layers build /repo with the guard off",
   "baseline_off_cmd": "cd /repo && cargo test --workspace --no-fail-fast --offline",
   "source_commits": hook_commits,
   "add_only": True},
 "engines": [{"name": "vsim", "path": "/verif/sim", "serves_properties": sorted(checks),
   "kind_free_text": "deterministic simulation: SimWorld (in-process simulated stdin/stdout/stderr/exit/SIGINT/step clock with seeded, serialisable fault plans) + RealWorld (guard-off binary and rustc-compiled programs on simulator-owned pipes and files) + reference-model / real-interpreter oracles; seeded search, minimisation, replay files; every check runs under a supervisor process (a raw process exit, abort or hang inside the code under test is reported as a violation of the run that caused it) and repeats a slice of its runs with one fresh worker process per run (process-wide state)"}],
 "checks": [
   {"property_id": k, "quick_cmd": f"./check {k} quick", "thorough_cmd": f"./check {k} thorough",
    "evidence_file": f"/verif/evidence/{k}.json", "replay_cmd_template": f"./check {k} --replay {{path}}", "engine": "vsim",
    "level_claimed": {"category": v[0], "text": v[1], "design_ref": "DESIGN.md section " + refs[k]},
    "level_note": v[2], "technique": v[3]} for k, v in sorted(checks.items())],
 "not_applicable": [{"property_id": k, "reason": v} for k, v in sorted(na.items())],
 "notes": "see DESIGN.md (section 9 is the build log). Self-tests: ./check selftest-determinism (per-run event-log hashes identical across worker counts and processes), ./check selftest-mutants (45 hand-written property-breaking patches, each must turn its check red), tools/selftest_seeded.sh (79 independently seeded changes in /verif/seeded, six sub-agent rounds), tools/selftest_benign.sh (31 property-preserving patches in /verif/benign, 20 of them from sub-agents, must stay green), ./check selftest-refnum (reference arithmetic against Python). KNOWN_FINDINGS.txt lists nine fixed defects (no open finding).",
}
json.dump(m, open(os.path.join(H, 'MANIFEST.json'), 'w'), indent=1, ensure_ascii=False)
print("MANIFEST.json written:", len(m["checks"]), "checks,", len(m["not_applicable"]), "not applicable")
