#!/bin/bash
# run_on_copy.sh <patch-file> <check args...>
# Applies a patch to a scratch copy of /repo (never to /repo itself), builds the
# simulator against that copy and runs the given check there.  Prints the check's
# output; exit status is the check's.  The scratch copy and its build output are removed.
set -u
PATCH="$(readlink -f "$1")"; shift
V="$(cd "$(dirname "${BASH_SOURCE[0]}")/.." && pwd)"
S="$(mktemp -d /tmp/vmut.XXXXXX)"
trap 'rm -rf "$S"' EXIT
mkdir -p "$S/repo" "$S/verif"
rsync -a --exclude target --exclude .git /repo/ "$S/repo/"
( cd "$S/repo" && git init -q . && git apply --whitespace=nowarn "$PATCH" ) || { echo "HARNESS-ERROR: patch does not apply"; exit 2; }
rsync -a --exclude .build --exclude evidence --exclude replays --exclude .git "$V/" "$S/verif/"
sed -i "s|/repo/src/lib.rs|$S/repo/src/lib.rs|" "$S/verif/sim/shadow/Cargo.toml"
export VERIF_REPO="$S/repo"
# share compiled third-party crates between scratch builds
export CARGO_TARGET_DIR="${MUT_TARGET:-$V/.build/mut-target}"
mkdir -p "$S/verif/.build/sim/release"
cd "$S/verif/sim" || exit 2
if ! cargo build --release --offline -q 2>"$S/build.log"; then
    grep -E "^error" -A 8 "$S/build.log" | head -40
    echo "HARNESS-ERROR: build failed on the patched copy"
    exit 2
fi
export VERIF_HOME="$S/verif"
"$CARGO_TARGET_DIR/release/vsim" "$@" --evidence-dir "$S/ev" --replay-dir "$S/rp"
rc=$?
if [ -n "${KEEP_REPLAYS:-}" ] && [ -d "$S/rp" ]; then mkdir -p "$KEEP_REPLAYS"; cp -r "$S/rp/." "$KEEP_REPLAYS/"; fi
exit $rc
