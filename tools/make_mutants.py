#!/usr/bin/env python3
"""Regenerate /verif/mutants/*.patch: deliberate property-breaking edits (sensitivity corpus).
Each entry: (name, property that must catch it, file, old text, new text).  Patches are made
against /repo's HEAD in a scratch copy; nothing here touches /repo."""
import os, subprocess, tempfile, shutil, sys
M = [
 ("C01__drop_reverse_negate", "src/core/execute.rs",
  "            v.reverse();\n\n            for mut x in v {\n                x.minus();", "            for mut x in v {\n                x.minus();"),
 ("C01__drop_reverse_reciprocal", "src/core/execute.rs",
  "            v.reverse();\n\n            for mut x in v {\n                x.flip();", "            for mut x in v {\n                x.flip();"),
 ("C01__question_less_or_equal", "src/core/area.rs",
  "                        Some(Ordering::Less) => left,", "                        Some(Ordering::Less) | Some(Ordering::Equal) => left,"),
 ("C01__bang_greater", "src/core/area.rs",
  "                        Some(Ordering::Equal) => left,", "                        Some(Ordering::Greater) => left,"),
 ("C01__nan_goes_left", "src/core/area.rs",
  "                        Some(Ordering::Less) => left,\n                        _ => right,", "                        Some(Ordering::Less) | None => left,\n                        _ => right,"),
 ("C01__nan_kept_on_empty_stack", "src/core/state.rs",
  "        let st = self.get_stack(idx);\n        if !st.is_empty() || !num.is_nan() {\n            st.push(num);\n        }", "        let st = self.get_stack(idx);\n        st.push(num);"),
 ("C01__empty_pop_yields_zero", "src/core/state.rs",
  "        match self.get_stack(idx).pop() {\n            Some(t) => t,\n            None => Num::nan(),\n        }\n    }\n\n    fn get_code", "        match self.get_stack(idx).pop() {\n            Some(t) => t,\n            None => Num::zero(),\n        }\n    }\n\n    fn get_code"),
 ("C01_C14__stdin_line_not_reversed", "src/core/execute.rs",
  "                for c in s.chars().rev() {", "                for c in s.chars() {"),
 ("C01__exit_codes_swapped", "src/core/execute.rs",
  "            crate::util::verif::exit(\"pop_stack_wrap\", 0);\n            process::exit(0);", "            crate::util::verif::exit(\"pop_stack_wrap\", 1);\n            process::exit(1);"),
 ("C01__stdout_stderr_swapped", "src/core/execute.rs",
  "        1 => {\n            if num.is_pos() {\n                write!(out, \"{}\", ext::num_to_unicode(&num)?)?;\n            } else {\n                write!(out, \"{}\", -&num)?;", "        1 => {\n            if num.is_pos() {\n                write!(err, \"{}\", ext::num_to_unicode(&num)?)?;\n            } else {\n                write!(out, \"{}\", -&num)?;"),
 ("C01__negative_printed_with_sign", "src/core/execute.rs",
  "                write!(out, \"{}\", -&num)?;", "                write!(out, \"{}\", &num)?;"),
 ("C01__select_before_pushing_back", "src/core/execute.rs",
  "            push_stack_wrap(out, err, &mut state, cur_stack, n)?;\n            state.set_current_stack(code.get_dot_count());", "            state.set_current_stack(code.get_dot_count());\n            let cs = state.current_stack();\n            push_stack_wrap(out, err, &mut state, cs, n)?;"),
 ("C01__heart_return_clears_source", "src/core/execute.rs",
  "        } else if let Some(loc) = state.get_latest_loc() {\n            return Ok((state, loc));", "        } else if let Some(loc) = state.get_latest_loc() {\n            state.set_latest_loc(cur_loc);\n            return Ok((state, loc));"),
 ("C10_C02__guard_removed_sum", "src/core/optimize.rs",
  "                for _ in 0..code.get_hangul_count() {\n                    if cur_stack <= 2 {\n                        return Ok((state_clone, false));\n                    }\n                    n += &pop_stack_wrap", "                for _ in 0..code.get_hangul_count() {\n                    n += &pop_stack_wrap"),
 ("C10_C02__guard_removed_product", "src/core/optimize.rs",
  "                for _ in 0..code.get_hangul_count() {\n                    if cur_stack <= 2 {\n                        return Ok((state_clone, false));\n                    }\n                    n *= &pop_stack_wrap", "                for _ in 0..code.get_hangul_count() {\n                    n *= &pop_stack_wrap"),
 ("C10_C02__guard_weakened_select", "src/core/optimize.rs",
  "            _ => {\n                if cur_stack <= 2 {\n                    return Ok((state_clone, false));\n                }\n                let n = pop_stack_wrap", "            _ => {\n                if cur_stack < 2 {\n                    return Ok((state_clone, false));\n                }\n                let n = pop_stack_wrap"),
 ("C10_C02__guard_area_only_stdin", "src/core/optimize.rs",
  "            if cur_stack <= 2 {\n                Err(Error::new(String::from(\"\"), \"\"))", "            if cur_stack == 0 {\n                Err(Error::new(String::from(\"\"), \"\"))"),
 ("C10__jump_budget_removed", "src/core/optimize.rs",
  "        if exec_count >= 100 {\n            return Ok((state_clone, false));\n        }", "        if exec_count >= usize::MAX {\n            return Ok((state_clone, false));\n        }"),
 ("C02__renumber_live_stacks_share_slot", "src/core/optimize.rs",
  "                *temp = max;\n                max += 1;", "                *temp = max;"),
 ("C02__captured_output_reversed", "src/core/optimize.rs",
  "            .extend(out_str.chars().map(|x| Num::from_num(x as isize)));", "            .extend(out_str.chars().rev().map(|x| Num::from_num(x as isize)));"),
 ("C02__captured_stderr_to_stdout", "src/app/run.rs",
  "                write!(stderr, \"{}\", ext::num_to_unicode(num)?)?;", "                write!(stdout, \"{}\", ext::num_to_unicode(num)?)?;"),
 ("C02__speculation_keeps_state_on_budget", "src/core/optimize.rs",
  "        if exec_count >= 100 {\n            return Ok((state_clone, false));", "        if exec_count >= 100 {\n            return Ok((state, false));"),
 ("C03__compiled_less_equal_swapped", "src/core/compile.rs",
  "                    if *type_ == 0 { \"Less\" } else { \"Equal\" }", "                    if *type_ == 0 { \"Equal\" } else { \"Less\" }"),
 ("C03__compiled_drop_reverse", "src/core/compile.rs",
  "                     \\n{0}v.reverse();\\\n                     \\n{0}for mut x in v {{\\\n                     \\n{0}    x.minus();", "                     \\n{0}for mut x in v {{\\\n                     \\n{0}    x.minus();"),
 ("C03__compiled_dispatch_off_by_one", "src/core/compile.rs",
  "                    stack.last().unwrap().0 + i\n", "                    stack.last().unwrap().0 + i + 1\n"),
 ("C03__compiled_label_translation_skipped", "src/core/compile.rs",
  "                            point[idx].1 = codes.len() - 1;", "                            point[idx].1 = i;"),
 ("C03_C14__compiled_line_not_reversed", "src/core/compile.rs",
  "                        for c in s.chars().rev() {\n                            self.data[0].push", "                        for c in s.chars() {\n                            self.data[0].push"),
 ("C03__compiled_exit_codes_swapped", "src/core/compile.rs",
  "        if idx == 1 {\n            std::process::exit(0);\n        }\n        if idx == 2 {\n            std::process::exit(1);", "        if idx == 1 {\n            std::process::exit(1);\n        }\n        if idx == 2 {\n            std::process::exit(0);"),
 ("C11__next_mutates_newest_snapshot", "src/app/debug.rs",
  "                        state_stack.push(execute::execute_one(\n                            &mut stdin(),\n                            &mut out,\n                            &mut err,\n                            state_stack.last().unwrap().0.clone(),\n                            state_stack.last().unwrap().1,\n                        )?);\n\n                        out.flush().unwrap();", "                        let (s0, l0) = state_stack.pop().unwrap();\n                        let s1 = execute::execute_one(&mut stdin(), &mut out, &mut err, s0, l0)?;\n                        state_stack.push((s1.0.clone(), l0));\n                        state_stack.push(s1);\n\n                        out.flush().unwrap();"),
 ("C11__previous_pops_two", "src/app/debug.rs",
  "                        if state_stack.len() > 1 {\n                            state_stack.pop();", "                        if state_stack.len() > 1 {\n                            state_stack.pop();\n                            if state_stack.len() > 1 {\n                                state_stack.pop();\n                            }"),
 ("C11__flush_skipped_at_breakpoint", "src/app/debug.rs",
  "            if break_points.contains(&state_stack.last().unwrap().1) {\n                out.flush().unwrap();\n                err.flush().unwrap();\n                is_running = false;", "            if break_points.contains(&state_stack.last().unwrap().1) {\n                is_running = false;"),
 ("C11__breakpoint_range_regressed", "src/app/debug.rs",
  "                        if num >= un_opt_code.len() {", "                        if num > un_opt_code.len() {"),
 ("C11_C12__flush_keeps_buffer", "src/util/io.rs",
  "        let res = (self.print_fn)(self.to_string()?);\n        self.buf = Vec::new();\n        res", "        let res = (self.print_fn)(self.to_string()?);\n        res"),
 ("C12__state_recreated_per_line", "src/app/interpreter.rs",
  "                let code = parse::parse(input);\n                for c in code.iter() {", "                let code = parse::parse(input);\n                if code.len() > 3 {\n                    state = UnOptState::new();\n                }\n                for c in code.iter() {"),
 ("C12__clear_is_noop_after_output", "src/app/interpreter.rs",
  "            \"clear\" => {\n                state = UnOptState::new();\n            }", "            \"clear\" => {\n                state = state.clone();\n            }"),
 ("C12__flush_skipped_for_stderr", "src/app/interpreter.rs",
  "        out.flush().unwrap();\n        err.flush().unwrap();\n    }\n}", "        out.flush().unwrap();\n    }\n}"),
 ("C13__extension_check_dropped", "src/util/io.rs",
  "        if p == OsStr::new(\"hyeong\") {", "        if p == OsStr::new(\"hyeong\") || p.len() > 6 {"),
 ("C13__open_unwrap", "src/util/io.rs",
  "            let mut f = File::open(path)?;", "            let mut f = File::open(path).unwrap();"),
 ("C13__num_to_unicode_unwrap", "src/util/ext.rs",
  "    std::char::from_u32(n).ok_or_else(|| {\n        Error::new(\n            \"utf-8 encoding error\",\n            format!(\"number {} is not valid unicode\", n),\n        )\n    })", "    Ok(std::char::from_u32(n).unwrap())"),
 ("C13__main_handle_unwrap", "src/main.rs",
  "    io::handle(\n        &mut stderr,\n        sub_main(", "    let _ = &mut stderr;\n    Result::unwrap(\n        sub_main("),
 ("C11__state_display_shows_three_stacks", "src/core/state.rs",
  "        for (a, b) in v {\n            s.push_str(&*format!(\"stack {}: {:?}\\n\", a, b));", "        for (a, b) in v.into_iter().take(3) {\n            s.push_str(&*format!(\"stack {}: {:?}\\n\", a, b));"),
 ("C11__sigint_handler_exits_process", "src/app/debug.rs",
  "            r.store(false, Ordering::SeqCst);\n            let mut stdout = StandardStream::stdout(color);\n            write!(stdout, \"\\ntype \\\"exit\\\" to exit\\n\").unwrap();", "            r.store(false, Ordering::SeqCst);\n            std::process::exit(0);\n            #[allow(unreachable_code)]\n            let mut stdout = StandardStream::stdout(color);\n            write!(stdout, \"\\ntype \\\"exit\\\" to exit\\n\").unwrap();"),
 ("C01__bang_spins_on_nan", "src/core/area.rs",
  "                        Some(Ordering::Equal) => left,\n                        _ => right,", "                        Some(Ordering::Equal) => left,\n                        None => area,\n                        _ => right,"),
 ("C01__push_ignores_short_write", "src/core/execute.rs",
  "                write!(out, \"{}\", ext::num_to_unicode(&num)?)?;", "                out.write(ext::num_to_unicode(&num)?.to_string().as_bytes())?;"),
 ("C14_C01__read_line_trims_terminator", "src/util/io.rs",
  "        self.read_line(&mut res)?;\n        Ok(res)", "        self.read_line(&mut res)?;\n        Ok(res.trim_end_matches('\\n').to_string())"),
]
out = os.path.join(os.path.dirname(os.path.dirname(os.path.abspath(__file__))), "mutants")
os.makedirs(out, exist_ok=True)
for f in os.listdir(out):
    if f.endswith(".patch"):
        os.remove(os.path.join(out, f))
tmp = tempfile.mkdtemp(prefix="/tmp/mkmut.")
try:
    subprocess.run(["git", "-C", "/repo", "worktree", "add", "-q", "--detach", tmp + "/wt", "HEAD"], check=True)
    wt = tmp + "/wt"
    bad = 0
    for name, path, old, new in M:
        p = os.path.join(wt, path)
        s = open(p, encoding="utf-8").read()
        if s.count(old) != 1:
            print("!! %s: old text found %d times in %s" % (name, s.count(old), path)); bad += 1; continue
        open(p, "w", encoding="utf-8").write(s.replace(old, new))
        d = subprocess.run(["git", "-C", wt, "diff"], capture_output=True, text=True).stdout
        open(os.path.join(out, name + ".patch"), "w", encoding="utf-8").write(d)
        subprocess.run(["git", "-C", wt, "checkout", "-q", "--", "."], check=True)
    print("%d mutants written, %d failed" % (len(M) - bad, bad))
finally:
    subprocess.run(["git", "-C", "/repo", "worktree", "remove", "--force", tmp + "/wt"])
    shutil.rmtree(tmp, ignore_errors=True)
