#!/usr/bin/env python3
"""Validate the harness's reference arithmetic (refnum.rs) against Python int / Fraction.
usage: refnum_check.py CORPUS   (corpus written by `vsim selftest-refnum CORPUS`)"""
import sys
from fractions import Fraction
NAN = "너무 커엇..."
def tdiv(a, b):
    q = abs(a) // abs(b)
    if (a < 0) != (b < 0):
        q = -q
    return q, a - q * b
def rtext(fr):
    if fr is None:
        return NAN
    return str(fr.numerator) if fr.denominator == 1 else "%d/%d" % (fr.numerator, fr.denominator)
def mk(p, q):
    return None if q == 0 else Fraction(p, q)
import math
bad = 0; n = 0
for line in open(sys.argv[1], encoding="utf-8"):
    f = line.rstrip("\n").split(" ")
    op = f[0]; n += 1
    ok = True
    if op in ("add", "sub", "mul"):
        a, b, r = int(f[1]), int(f[2]), int(f[3])
        ok = r == {"add": a + b, "sub": a - b, "mul": a * b}[op]
    elif op == "divrem":
        a, b, q, r = map(int, f[1:5]); ok = (q, r) == tdiv(a, b)
    elif op == "gcd":
        a, b, g = map(int, f[1:4]); ok = g == math.gcd(a, b)
    elif op == "rat":
        ok = " ".join(f[3:]) == rtext(mk(int(f[1]), int(f[2])))
    elif op in ("radd", "rmul"):
        u = mk(int(f[1]), int(f[2])); w = mk(int(f[3]), int(f[4]))
        e = None if u is None or w is None else (u + w if op == "radd" else u * w)
        ok = " ".join(f[5:]) == rtext(e)
    elif op == "rrec":
        u = mk(int(f[1]), int(f[2]))
        e = None if u is None or u == 0 else 1 / u
        ok = " ".join(f[3:]) == rtext(e)
    elif op == "rneg":
        u = mk(int(f[1]), int(f[2])); ok = " ".join(f[3:]) == rtext(None if u is None else -u)
    elif op == "rcmp":
        u = mk(int(f[1]), int(f[2])); c = int(f[3])
        e = "none" if u is None else ("lt" if u < c else "eq" if u == c else "gt")
        ok = f[4] == e
    elif op == "rfloor":
        u = mk(int(f[1]), int(f[2])); ok = int(f[3]) == u.numerator // u.denominator
    else:
        ok = False
    if not ok:
        bad += 1
        if bad < 10:
            print("MISMATCH:", line.rstrip())
print("refnum corpus: %d lines, %d mismatches" % (n, bad))
sys.exit(1 if bad else 0)
