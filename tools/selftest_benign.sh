#!/bin/bash
# False-alarm self-test: every patch in /verif/benign keeps all properties; every quick check must exit 0 on it.
V="$(cd "$(dirname "${BASH_SOURCE[0]}")/.." && pwd)"
filter="${1:-}"
bad=0
for p in "${BENIGN_DIR:-$V/benign}"/*.${BENIGN_EXT:-patch}; do
    name="$(basename "$p")"
    [[ -n "$filter" && "$name" != *"$filter"* ]] && continue
    res=""
    for prop in ${BENIGN_PROPS:-C01 C02 C03 C10 C11 C12 C13 C14}; do
        tmp="$(mktemp)"
        "$V/tools/run_on_copy.sh" "$p" "$prop" quick >"$tmp" 2>&1; rc=$?
        if [ $rc -ne 0 ]; then
            res="$res $prop(rc=$rc: $(tr -d '\000' <"$tmp" | grep -m1 -E 'clause   :|HARNESS' | sed 's/.*: //'))"; bad=1
        fi
        rm -f "$tmp"
    done
    if [ -z "$res" ]; then echo "QUIET   $name"; else echo "ALARM   $name :$res"; fi
done
exit $bad
