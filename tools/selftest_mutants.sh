#!/bin/bash
# Sensitivity self-test: every patch in /verif/mutants must turn the quick check of the
# property named first in its file name red (exit 1).  Works on scratch copies only.
# usage: selftest_mutants.sh [name-filter]
V="$(cd "$(dirname "${BASH_SOURCE[0]}")/.." && pwd)"
filter="${1:-}"
ok=0; miss=0; err=0
for p in "$V"/mutants/*.patch; do
    name="$(basename "$p" .patch)"
    [[ -n "$filter" && "$name" != *"$filter"* ]] && continue
    props="${name%%__*}"
    caught=""
    for prop in ${props//_/ }; do
        hs=300; [[ "$name" == *spins* ]] && hs=20
        tmp="$(mktemp)"
        VERIF_HANG_SECS=$hs "$V/tools/run_on_copy.sh" "$p" "$prop" quick >"$tmp" 2>&1; rc=$?
        out="$(tr -d '\000' <"$tmp")"; rm -f "$tmp"
        if [ $rc -eq 1 ] && grep -q "^VIOLATION property=$prop" <<<"$out"; then
            caught="$caught $prop($(grep -m1 'clause   :' <<<"$out" | sed 's/.*: //'))"
        elif [ $rc -eq 2 ]; then
            caught="$caught $prop(HARNESS-ERROR)"
        else
            caught="$caught $prop(missed)"
        fi
    done
    first="${props%%_*}"
    if [[ "$caught" == *"$first("* && "$caught" != *"$first(missed)"* && "$caught" != *"$first(HARNESS-ERROR)"* ]]; then
        ok=$((ok+1)); echo "CAUGHT  $name :$caught"
    elif [[ "$caught" == *"HARNESS-ERROR"* ]]; then
        err=$((err+1)); echo "ERROR   $name :$caught"
    else
        miss=$((miss+1)); echo "MISSED  $name :$caught"
    fi
done
echo "mutants: caught=$ok missed=$miss errors=$err"
[ $miss -eq 0 ] && [ $err -eq 0 ]
