#!/bin/bash
# Line coverage of /repo/src under the SimWorld parts of all quick checks (reach measurement, not a check).
# Needs the nightly toolchain's llvm-tools (present in this sandbox).  Output: a per-file table.
set -eu
V="$(cd "$(dirname "${BASH_SOURCE[0]}")/.." && pwd)"
T="$(dirname "$(find ~/.rustup/toolchains/nightly-x86_64-unknown-linux-gnu -name llvm-profdata | head -1)")"
D="$(mktemp -d /dev/shm/vcov.XXXXXX)"; trap 'rm -rf "$D"' EXIT
cd "$V/sim"
RUSTFLAGS="--cfg hyeong_verif -A unexpected_cfgs -C instrument-coverage" cargo +nightly build --release --offline --target-dir "$V/.build/cov" 2>&1 | tail -1
export VERIF_HOME="$V" VSIM_NO_SUPERVISOR=1 VERIF_SKIP_REAL=1 LLVM_PROFILE_FILE="$D/%p-%m.profraw"
for p in C01 C02 C03 C10 C11 C12 C13 C14; do
    n=3000; [ $p = C03 ] && n=24; [ $p = C13 ] && n=300
    "$V/.build/cov/release/vsim" $p quick --runs $n --evidence-dir "$D/ev" --replay-dir "$D/rp" 2>&1 | tail -1
done
"$T/llvm-profdata" merge -sparse "$D"/*.profraw -o "$D/all.profdata"
"$T/llvm-cov" report "$V/.build/cov/release/vsim" -instr-profile="$D/all.profdata" --ignore-filename-regex='(registry|rustc|verif/sim|library/)'
