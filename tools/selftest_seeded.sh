#!/bin/bash
# Re-run every kept seeded change (/verif/seeded/<id>/patch.diff) against the quick check of the property it
# breaks; each must end with exit 1 and a VIOLATION line.  Scratch copies only.
V="$(cd "$(dirname "${BASH_SOURCE[0]}")/.." && pwd)"
filter="${1:-}"
ok=0; miss=0
for d in "$V"/seeded/C*-m*; do
    id="$(basename "$d")"
    [[ -n "$filter" && "$id" != *"$filter"* ]] && continue
    prop="${id%%-*}"
    # a change judged to break another property than the one it was written for
    alt="$(python3 -c "import json,re;j=json.load(open('$d/meta.json'));m=re.match(r'(C\d\d) quick', j.get('detected_by',''));print(m.group(1) if m else '')" 2>/dev/null)"
    [ -n "$alt" ] && prop="$alt"
    tmp="$(mktemp)"
    "$V/tools/run_on_copy.sh" "$d/patch.diff" "$prop" quick >"$tmp" 2>&1; rc=$?
    if [ $rc -eq 1 ] && tr -d '\000' <"$tmp" | grep -q "^VIOLATION property=$prop"; then
        ok=$((ok+1)); echo "CAUGHT  $id by $prop ($(tr -d '\000' <"$tmp" | grep -m1 'clause   :' | sed 's/.*: //'))"
    else
        miss=$((miss+1)); echo "MISSED  $id by $prop (rc=$rc)"
    fi
    rm -f "$tmp"
done
echo "seeded: caught=$ok missed=$miss"
[ $miss -eq 0 ]
