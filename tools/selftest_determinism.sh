#!/bin/bash
# Determinism self-test: every property's per-run event-log hashes and verdicts must be
# identical across two separate processes with different worker counts (16 and 3), and
# across a second VERIF_SEED.  Two processes also see different HashMap RandomState keys.
# usage: selftest_determinism.sh [runs-per-property]
V="$(cd "$(dirname "${BASH_SOURCE[0]}")/.." && pwd)"
N="${1:-2000}"
B="$V/.build/sim/release/vsim"
T="$(mktemp -d /dev/shm/vdet.XXXXXX)"
trap 'rm -rf "$T"' EXIT
export VERIF_HOME="$V" VERIF_SKIP_REAL=1
cd "$V/sim" || exit 2
bad=0
for seed in 1 20260927; do
for p in C01 C02 C03 C10 C11 C12 C13 C14; do
    n=$N
    [ "$p" = C03 ] && n=$(( N / 50 > 8 ? N / 50 : 8 ))
    [ "$p" = C13 ] && n=$(( N / 4 ))
    VERIF_WORKERS=16 "$B" $p quick --seed $seed --runs $n --trace "$T/a" --evidence-dir "$T/ev" --replay-dir "$T/rp" >/dev/null 2>&1; ra=$?
    VERIF_WORKERS=3  "$B" $p quick --seed $seed --runs $n --trace "$T/b" --evidence-dir "$T/ev" --replay-dir "$T/rp" >/dev/null 2>&1; rb=$?
    if [ $ra -ne $rb ] || ! cmp -s "$T/a" "$T/b"; then
        echo "NONDETERMINISTIC $p seed=$seed (exit $ra vs $rb): $(diff "$T/a" "$T/b" | head -3)"
        bad=1
    else
        echo "deterministic   $p seed=$seed runs=$n  ($(wc -l < "$T/a") traces, $(md5sum < "$T/a" | cut -c1-12))"
    fi
done
done
exit $bad
