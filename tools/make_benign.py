#!/usr/bin/env python3
"""Regenerate /verif/benign/*.patch: behaviour-preserving (property-preserving) edits a maintainer might make.
Every check must stay green on each of them (false-alarm self-test)."""
import os, subprocess, tempfile, shutil
B = [
 ("reword_messages", [
   ("src/app/debug.rs", 'io::print_log(stdout, "moved back")?;', 'io::print_log(stdout, "stepped one command back")?;'),
   ("src/app/debug.rs", 'io::print_error_str_no_exit(stdout, "can\'t go back");', 'io::print_error_str_no_exit(stdout, "already at the first command");'),
   ("src/app/debug.rs", 'io::print_error_str_no_exit(stdout, "number exceeds the range");', 'io::print_error_str_no_exit(stdout, "no such command index");'),
   ("src/app/debug.rs", 'io::print_log(stdout, "printing breakpoints")?;', 'io::print_log(stdout, "breakpoints:")?;'),
   ("src/app/debug.rs", 'format!("command \\"{}\\" not found", t)', 'format!("unknown debugger command: {}", t)'),
   ("src/util/ext.rs", '"utf-8 encoding error",', '"cannot encode output",'),
   ("src/util/io.rs", '"Only .hyeong extension supported"', '"expected a file with the .hyeong extension"'),
   ("src/app/run.rs", 'io::print_log(stdout, "running code")?;\n\n        if !state.get_stack(1)', 'io::print_log(stdout, "executing")?;\n\n        if !state.get_stack(1)'),
 ]),
 ("help_texts_longer", [
   ("src/app/debug.rs", '                        writeln!(stdout, "[r] run         run until breakpoint")?;', '                        writeln!(stdout, "[r] run         run until breakpoint")?;\n                        writeln!(stdout, "")?;\n                        writeln!(stdout, "an empty line does nothing")?;'),
   ("src/app/interpreter.rs", '                writeln!(stdout, "help   Print this")?;', '                writeln!(stdout, "help   Print this")?;\n                writeln!(stdout, "       (commands are entered line by line)")?;'),
 ]),
 ("jump_budget_1000", [("src/core/optimize.rs", "        if exec_count >= 100 {", "        if exec_count >= 1000 {")]),
 ("jump_budget_10", [("src/core/optimize.rs", "        if exec_count >= 100 {", "        if exec_count >= 10 {")]),
 ("flush_after_every_header", [("src/util/io.rs", "    w.reset()?;\n    writeln!(w)?;\n    Ok(())\n}\n\n/// Print note", "    w.reset()?;\n    writeln!(w)?;\n    w.flush()?;\n    Ok(())\n}\n\n/// Print note")]),
 ("listing_padding_wider", [("src/app/check.rs", '            "{}  ",\n            " ".repeat(', '            "{}    ",\n            " ".repeat(')]),
 ("renumber_descending", [("src/core/optimize.rs", "        chk.sort_unstable();\n", "        chk.sort_unstable();\n        chk.reverse();\n")]),
 ("note_line_dropped", [("src/util/io.rs", "    if !note.is_empty() {\n        print_note(w, err.get_note()).unwrap();\n    }", "    let _ = note;")]),
 ("state_stacks_in_btreemap", [
   ("src/core/state.rs", "use std::collections::HashMap;", "use std::collections::{BTreeMap, HashMap};"),
   ("src/core/state.rs", "pub struct UnOptState {\n    stack: HashMap<usize, Vec<Num>>,", "pub struct UnOptState {\n    stack: BTreeMap<usize, Vec<Num>>,"),
   ("src/core/state.rs", "        UnOptState {\n            stack: HashMap::new(),", "        UnOptState {\n            stack: BTreeMap::new(),"),
 ]),
 ("emitted_code_reformatted", [("src/core/compile.rs", '    " ".repeat(value * 4)', '    " ".repeat(value * 2)')]),
 ("speculative_output_per_char", [("src/app/run.rs", "            stdout.flush()?;\n            state.get_stack(1).clear();", "            stdout.flush()?;\n            stdout.flush()?;\n            state.get_stack(1).clear();")]),
]
out = os.path.join(os.path.dirname(os.path.dirname(os.path.abspath(__file__))), "benign")
os.makedirs(out, exist_ok=True)
for f in os.listdir(out):
    if f.endswith(".patch"): os.remove(os.path.join(out, f))
tmp = tempfile.mkdtemp(prefix="/tmp/mkben.")
try:
    subprocess.run(["git", "-C", "/repo", "worktree", "add", "-q", "--detach", tmp + "/wt", "HEAD"], check=True)
    wt = tmp + "/wt"; bad = 0
    for name, edits in B:
        ok = True
        for path, old, new in edits:
            p = os.path.join(wt, path); s = open(p, encoding="utf-8").read()
            if s.count(old) != 1:
                print("!! %s: old text found %d times in %s: %r" % (name, s.count(old), path, old[:50])); ok = False; break
            open(p, "w", encoding="utf-8").write(s.replace(old, new))
        if ok:
            d = subprocess.run(["git", "-C", wt, "diff"], capture_output=True, text=True).stdout
            open(os.path.join(out, name + ".patch"), "w", encoding="utf-8").write(d)
        else: bad += 1
        subprocess.run(["git", "-C", wt, "checkout", "-q", "--", "."], check=True)
    print("%d benign patches written, %d failed" % (len(B) - bad, bad))
finally:
    subprocess.run(["git", "-C", "/repo", "worktree", "remove", "--force", tmp + "/wt"])
    shutil.rmtree(tmp, ignore_errors=True)
