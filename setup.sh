#!/bin/bash
# Build the verification machinery from files on disk only (offline).
set -eu
export CARGO_NET_OFFLINE=true
mkdir -p /verif/.build /verif/evidence /verif/replays
cd /verif/sim
cargo build --release --offline 2>&1 | tail -3
echo "setup ok"
