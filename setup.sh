#!/bin/bash
# Build the verification machinery from files on disk only (offline).
set -eu
export CARGO_NET_OFFLINE=true
H="$(cd "$(dirname "${BASH_SOURCE[0]}")" && pwd)"
mkdir -p "$H/.build" "$H/evidence" "$H/replays"
cd "$H/sim"
cargo build --release --offline 2>&1 | tail -3
echo "setup ok"
